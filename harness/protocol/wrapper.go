//go:build verif

package protocol

import (
	"context"

	wrapping "github.com/hashicorp/go-kms-wrapping/v2"
	"github.com/hashicorp/go-kms-wrapping/v2/aead"
	"github.com/hashicorp/nodeenrollment/zzverif/vf"
)

// vfWrapperT is a real aead wrapper keyed with universe key k (its own code runs from SSA).
type vfWrapperT = aead.Wrapper

func newVfWrapper(keyId string, k int) *aead.Wrapper {
	w := aead.NewWrapper()
	if _, err := w.SetConfig(context.Background(), wrapping.WithKeyId(keyId)); err != nil {
		panic(err)
	}
	if err := w.SetAesGcmKeyBytes(vf.X25519Priv(k)); err != nil {
		panic(err)
	}
	return w
}
