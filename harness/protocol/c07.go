//go:build verif

package protocol

import (
	"context"
	"crypto/tls"
	"crypto/x509"
	"crypto/x509/pkix"
	"encoding/base64"
	"math/big"
	"net"
	"time"

	"github.com/hashicorp/nodeenrollment"
	"github.com/hashicorp/nodeenrollment/registration"
	nodetls "github.com/hashicorp/nodeenrollment/tls"
	"github.com/hashicorp/nodeenrollment/types"
	"github.com/hashicorp/nodeenrollment/zzverif/vf"
	"github.com/hashicorp/nodeenrollment/zzverif/vfs"
	"google.golang.org/protobuf/proto"
	"google.golang.org/protobuf/types/known/timestamppb"
)

func init() { VfHarnesses["VerifC07RogueServer"] = VerifC07RogueServer }

type vfServerPeer struct {
	net.Conn
	Proto              string
	Chain              [][]byte
	HoldsLeafKey       bool
	RequestsClientCert bool
	AcceptableCAs      [][]byte
}

// decode the GenerateServerCertificatesRequest a client config carries in its ALPN list
func vfRequestOf(cfg *tls.Config) *types.GenerateServerCertificatesRequest {
	s, _ := nodetls.CombineFromNextProtos(nodeenrollment.AuthenticateNodeNextProtoV1Prefix, cfg.NextProtos)
	b, _ := base64.RawStdEncoding.DecodeString(s)
	req := new(types.GenerateServerCertificatesRequest)
	if err := proto.Unmarshal(b, req); err != nil {
		panic(err)
	}
	return req
}

// C07 (safety half): a node completes the handshake only with a peer that holds the key of a leaf which
// chains to a CA in the node's own bundles and carries this connection's nonce.
func VerifC07RogueServer() {
	ctx := context.Background()
	st := &vfs.Storage{}
	t0 := vf.Now()
	deadline := t0.Add(time.Second)
	ok := func(step string, err error) {
		vf.Assume(vf.TimeLE(vf.Now(), deadline))
		vf.Assert("honest-step-succeeds:"+step, err == nil)
		vf.Assume(err == nil)
	}
	mkRoot := func(k int, id string) *types.RootCertificate {
		tmpl := &x509.Certificate{SubjectKeyId: vf.Pkix(k), Subject: pkix.Name{CommonName: "root"}, SerialNumber: big.NewInt(1),
			NotBefore: t0.Add(-time.Hour), NotAfter: t0.Add(time.Hour), IsCA: true, BasicConstraintsValid: true}
		der := vfs.MkCert(tmpl, tmpl, k, k)
		return &types.RootCertificate{Id: id, PublicKeyPkix: vf.Pkix(k), PrivateKeyPkcs8: vf.Pkcs8(k), PrivateKeyType: types.KEYTYPE_ED25519,
			CertificateDer: der, NotBefore: timestamppb.New(tmpl.NotBefore), NotAfter: timestamppb.New(tmpl.NotAfter)}
	}
	ok("store-roots", (&types.RootCertificates{Id: nodeenrollment.RootsMessageId, Current: mkRoot(0, "current"), Next: mkRoot(1, "next")}).Store(ctx, st))

	// honest enrollment with the library's own code
	nodeSt := &vfs.Storage{}
	creds, err := types.NewNodeCredentials(ctx, nodeSt)
	ok("new-creds", err)
	freq, err := creds.CreateFetchNodeCredentialsRequest(ctx)
	ok("fetch-req", err)
	_, err = registration.AuthorizeNode(ctx, st, freq)
	ok("authorize", err)
	fresp, err := registration.FetchNodeCredentials(ctx, st, freq)
	ok("fetch", err)
	_, err = creds.HandleFetchNodeCredentialsResponse(ctx, nodeSt, fresp)
	ok("handle", err)

	cfgs, err := nodetls.ClientConfigs(ctx, creds)
	ok("client-configs", err)
	vf.Assert("at-least-one-config", len(cfgs) >= 1)
	cfg := cfgs[0]
	thisReq := vfRequestOf(cfg)

	// what the rogue server presents
	kind := vf.Int("server-chain-kind", 0, 3)
	var chain [][]byte
	switch kind {
	case 0: // the real server's just-in-time certificate for THIS nonce
		resp, err := nodetls.GenerateServerCertificates(ctx, st, thisReq)
		ok("server-certs", err)
		chain = [][]byte{resp.CertificateBundles[0].CertificateDer, resp.CertificateBundles[0].CaCertificateDer}
	case 1: // a certificate the real server minted for ANOTHER connection of the same node (stale)
		other, err := nodetls.ClientConfigs(ctx, creds)
		ok("other-client-configs", err)
		resp, err := nodetls.GenerateServerCertificates(ctx, st, vfRequestOf(other[0]))
		ok("server-certs-other", err)
		chain = [][]byte{resp.CertificateBundles[0].CertificateDer, resp.CertificateBundles[0].CaCertificateDer}
	case 2: // foreign root, leaf carries this nonce
		ftmpl := &x509.Certificate{SubjectKeyId: vf.Pkix(5), Subject: pkix.Name{CommonName: "foreign"}, SerialNumber: big.NewInt(1),
			NotBefore: t0.Add(-time.Hour), NotAfter: t0.Add(time.Hour), IsCA: true, BasicConstraintsValid: true}
		fder := vfs.MkCert(ftmpl, ftmpl, 5, 5)
		leaf := vfs.MkCert(&x509.Certificate{Subject: pkix.Name{CommonName: "x"}, SerialNumber: big.NewInt(2),
			DNSNames: []string{base64.RawStdEncoding.EncodeToString(thisReq.Nonce)}, ExtKeyUsage: []x509.ExtKeyUsage{x509.ExtKeyUsageServerAuth},
			NotBefore: ftmpl.NotBefore, NotAfter: ftmpl.NotAfter}, ftmpl, 6, 5)
		chain = [][]byte{leaf, fder}
	default: // self-signed leaf carrying this nonce
		stmpl := &x509.Certificate{Subject: pkix.Name{CommonName: "self"}, SerialNumber: big.NewInt(3),
			DNSNames: []string{base64.RawStdEncoding.EncodeToString(thisReq.Nonce)}, ExtKeyUsage: []x509.ExtKeyUsage{x509.ExtKeyUsageServerAuth},
			NotBefore: t0.Add(-time.Hour), NotAfter: t0.Add(time.Hour), IsCA: true, BasicConstraintsValid: true}
		chain = [][]byte{vfs.MkCert(stmpl, stmpl, 6, 6)}
	}
	// the CA names a server announces are public: every rogue can announce the node's real CA
	realCA, err := x509.ParseCertificate(creds.CertificateBundles[0].CaCertificateDer)
	ok("parse-ca", err)
	peer := &vfServerPeer{Proto: cfg.NextProtos[0], RequestsClientCert: true, AcceptableCAs: [][]byte{realCA.RawSubject}}
	peer.Chain = chain
	peer.HoldsLeafKey = vf.Bool("server-holds-leaf-key")
	conn := tls.Client(peer, cfg)
	herr := conn.HandshakeContext(ctx)
	vf.Assume(vf.TimeLE(vf.Now(), deadline))
	if herr == nil {
		vf.Reach("connected")
		vf.Assert("only-the-real-servers-certificate-for-this-nonce", kind == 0)
		vf.Assert("peer-holds-the-key", peer.HoldsLeafKey)
	} else {
		vf.Reach("refused")
		vf.Assert("own-server-is-accepted", vf.Not(vf.And(kind == 0, peer.HoldsLeafKey)))
	}
}
