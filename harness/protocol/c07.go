//go:build verif

package protocol

import (
	"context"
	"crypto/tls"
	"crypto/x509"
	"crypto/x509/pkix"
	"encoding/base64"
	"errors"
	"math/big"
	"net"
	"strings"
	"time"

	"github.com/hashicorp/nodeenrollment"
	"github.com/hashicorp/nodeenrollment/registration"
	nodetls "github.com/hashicorp/nodeenrollment/tls"
	"github.com/hashicorp/nodeenrollment/types"
	"github.com/hashicorp/nodeenrollment/zzverif/vf"
	"github.com/hashicorp/nodeenrollment/zzverif/vfs"
	"google.golang.org/protobuf/proto"
)

func init() {
	VfHarnesses["VerifC07RogueServer"] = VerifC07RogueServer
	VfHarnesses["VerifC07OwnServer"] = VerifC07OwnServer
}

// vfServerPeer is the remote server of a client-side handshake, as seen by the handshake contract model.
type vfServerPeer struct {
	net.Conn
	Proto              string
	Chain              [][]byte
	HoldsLeafKey       bool
	RequestsClientCert bool
	AcceptableCAs      [][]byte
}

// decode the GenerateServerCertificatesRequest a client config carries in its ALPN list
func vfRequestOf(cfg *tls.Config) *types.GenerateServerCertificatesRequest {
	s, _ := nodetls.CombineFromNextProtos(nodeenrollment.AuthenticateNodeNextProtoV1Prefix, cfg.NextProtos)
	b, _ := base64.RawStdEncoding.DecodeString(s)
	req := new(types.GenerateServerCertificatesRequest)
	if err := proto.Unmarshal(b, req); err != nil {
		panic(err)
	}
	return req
}

func vfPreferenceOf(cfg *tls.Config) string {
	for _, p := range cfg.NextProtos {
		if strings.HasPrefix(p, nodeenrollment.CertificatePreferenceV1Prefix) {
			return strings.TrimPrefix(p, nodeenrollment.CertificatePreferenceV1Prefix)
		}
	}
	return ""
}

// vfDialOptions: what protocol.Dial adds to the client configuration (a server name), and what an application may
// add (state, extra ALPN protocols).
func vfDialOptions() []nodeenrollment.Option {
	var opts []nodeenrollment.Option
	if vf.Bool("dialer-sets-server-name") {
		opts = append(opts, nodeenrollment.WithServerName("server.example"))
	}
	if vf.Bool("node-supplies-state") {
		opts = append(opts, nodeenrollment.WithState(vfs.State("some-state")))
	}
	if vf.Bool("application-adds-a-protocol") {
		opts = append(opts, nodeenrollment.WithExtraAlpnProtos([]string{"app-proto"}))
	}
	return opts
}

// C07 (safety): a registered node (universe key 2, both chains valid) completes the client handshake only with a
// peer that holds the key of a leaf which chains to a CA in the node's own bundles AND carries this connection's
// fresh nonce. Rogue peers: a certificate the real server minted for another connection of the same node, a
// foreign-root or self-signed leaf carrying this nonce, another registered node's own certificate (trusted root,
// no nonce).
func VerifC07RogueServer() {
	ctx := context.Background()
	t0 := vf.Now()
	vf.ShortScenario(t0, time.Second)
	st, creds := vfC16Server(ctx, t0)
	// the same process may have built client configurations before, for other credentials issued under the foreign
	// root that rogue kind 2 uses (another deployment, or the roots before a reinitialisation): what a node trusts is
	// what ITS stored credentials hold, not what the process has seen
	if vf.Bool("process-built-configurations-for-credentials-of-the-foreign-root-before") {
		ftmpl := &x509.Certificate{SubjectKeyId: vf.Pkix(5), Subject: pkix.Name{CommonName: "root"}, SerialNumber: big.NewInt(1),
			NotBefore: t0.Add(-time.Hour), NotAfter: t0.Add(time.Hour), IsCA: true, BasicConstraintsValid: true}
		ftmpl2 := vfs.RootTemplate(7, t0.Add(-time.Hour), t0.Add(time.Hour))
		other := &types.NodeCredentials{Id: string(nodeenrollment.CurrentId), CertificatePublicKeyPkix: vf.Pkix(4), CertificatePrivateKeyPkcs8: vf.Pkcs8(4), CertificatePrivateKeyType: types.KEYTYPE_ED25519,
			CertificateBundles: []*types.CertificateBundle{
				{CertificateDer: vfNodeLeaf(ftmpl, 4, 5, x509.ExtKeyUsageClientAuth), CaCertificateDer: vfs.MkCert(ftmpl, ftmpl, 5, 5)},
				{CertificateDer: vfNodeLeaf(ftmpl2, 4, 7, x509.ExtKeyUsageClientAuth), CaCertificateDer: vfs.MkCert(ftmpl2, ftmpl2, 7, 7)}}}
		if _, oerr := nodetls.ClientConfigs(ctx, other); oerr != nil {
			panic(oerr)
		}
	}
	cfgs, err := nodetls.ClientConfigs(ctx, creds, vfDialOptions()...)
	if err != nil || len(cfgs) != 2 {
		panic("client configs")
	}
	cfg := cfgs[vf.Int("config-tried", 0, 1)]
	thisReq := vfRequestOf(cfg)
	rootTmpl := vfs.RootTemplate(0, t0.Add(-time.Hour), t0.Add(time.Hour))

	kind := vf.Int("server-chain-kind", 0, 4)
	var chain [][]byte
	var key []byte
	switch kind {
	case 0: // the real server's just-in-time certificate for THIS nonce
		resp, err := nodetls.GenerateServerCertificates(ctx, st, thisReq)
		if err != nil {
			panic(err)
		}
		chain, key = [][]byte{resp.CertificateBundles[0].CertificateDer, resp.CertificateBundles[0].CaCertificateDer}, resp.CertificatePrivateKeyPkcs8
	case 1: // a certificate (and its key) the real server minted for ANOTHER connection of the same node
		other, err := nodetls.ClientConfigs(ctx, creds)
		if err != nil {
			panic(err)
		}
		resp, err := nodetls.GenerateServerCertificates(ctx, st, vfRequestOf(other[0]))
		if err != nil {
			panic(err)
		}
		chain, key = [][]byte{resp.CertificateBundles[0].CertificateDer, resp.CertificateBundles[0].CaCertificateDer}, resp.CertificatePrivateKeyPkcs8
	case 2: // foreign root, leaf carries this nonce
		ftmpl := &x509.Certificate{SubjectKeyId: vf.Pkix(5), Subject: pkix.Name{CommonName: "root"}, SerialNumber: big.NewInt(1),
			NotBefore: t0.Add(-time.Hour), NotAfter: t0.Add(time.Hour), IsCA: true, BasicConstraintsValid: true}
		leaf := vfs.MkCert(&x509.Certificate{Subject: pkix.Name{CommonName: "x"}, SerialNumber: big.NewInt(2),
			DNSNames: []string{base64.RawStdEncoding.EncodeToString(thisReq.Nonce)}, ExtKeyUsage: []x509.ExtKeyUsage{x509.ExtKeyUsageServerAuth},
			NotBefore: ftmpl.NotBefore, NotAfter: ftmpl.NotAfter}, ftmpl, 6, 5)
		chain, key = [][]byte{leaf, vfs.MkCert(ftmpl, ftmpl, 5, 5)}, vf.Pkcs8(6)
	case 3: // self-signed leaf carrying this nonce, under the real root's name
		stmpl := &x509.Certificate{Subject: pkix.Name{CommonName: "root"}, SerialNumber: big.NewInt(3),
			DNSNames: []string{base64.RawStdEncoding.EncodeToString(thisReq.Nonce)}, ExtKeyUsage: []x509.ExtKeyUsage{x509.ExtKeyUsageServerAuth},
			NotBefore: t0.Add(-time.Hour), NotAfter: t0.Add(time.Hour), IsCA: true, BasicConstraintsValid: true}
		chain, key = [][]byte{vfs.MkCert(stmpl, stmpl, 6, 6)}, vf.Pkcs8(6)
	default: // another registered node (universe key 3) presenting its own, genuinely issued certificate
		chain, key = [][]byte{vfNodeLeaf(rootTmpl, 3, 0, x509.ExtKeyUsageClientAuth)}, vf.Pkcs8(3)
	}
	cas := [][]byte{creds.CertificateBundles[0].CaCertificateDer, creds.CertificateBundles[1].CaCertificateDer}
	var subjects [][]byte
	for _, der := range cas { // the CA names a server announces are public: every rogue can announce the node's real CAs
		c, err := x509.ParseCertificate(der)
		if err != nil {
			panic(err)
		}
		subjects = append(subjects, c.RawSubject)
	}
	peer := &vfServerPeer{Proto: cfg.NextProtos[0], Chain: chain, HoldsLeafKey: vf.Bool("server-holds-leaf-key"), RequestsClientCert: true, AcceptableCAs: subjects}
	peer.Conn = vf.RogueServerConn(peer.Proto, peer.Chain, key, peer.HoldsLeafKey, true, cas)
	herr := tls.Client(peer, cfg).HandshakeContext(ctx)
	if herr == nil {
		vf.Reach("connected")
		vf.Assert("only-the-real-servers-certificate-for-this-nonce", kind == 0)
		vf.Assert("peer-holds-the-key", peer.HoldsLeafKey)
	} else {
		vf.Reach("refused")
		vf.Assert("own-server-is-accepted", vf.Not(vf.And(kind == 0, peer.HoldsLeafKey)))
	}
}

// C07 (own server): each client configuration names a distinct one of the node's chains as its certificate
// preference, and a server that still recognizes only ONE of the node's two roots (the other was rotated away) is
// reached through the configuration for that root: the real server-side code (certificate generation, ServerConfig,
// its GetCertificate and VerifyConnection callbacks) serves the preferred chain, and the node's handshake with it
// succeeds.
func VerifC07OwnServer() {
	ctx := context.Background()
	t0 := vf.Now()
	vf.ShortScenario(t0, time.Second)
	st, creds := vfC16Server(ctx, t0)
	vf.AppendSpare(1) // whatever capacity the runtime gives the ALPN slices
	cfgs, err := nodetls.ClientConfigs(ctx, creds, vfDialOptions()...)
	vf.AppendSpare(0)
	vf.Assert("client-configs-built", err == nil)
	vf.Assert("one-config-per-valid-chain", len(cfgs) == 2)
	if err != nil || len(cfgs) != 2 {
		return
	}
	id0, _ := nodeenrollment.KeyIdFromPkix(vf.Pkix(0))
	id1, _ := nodeenrollment.KeyIdFromPkix(vf.Pkix(1))
	p0, p1 := vfPreferenceOf(cfgs[0]), vfPreferenceOf(cfgs[1])
	vf.Assert("each-config-prefers-a-different-chain", vf.Or(vf.And(p0 == id0, p1 == id1), vf.And(p0 == id1, p1 == id0)))
	// the server kept only one of the two roots the node knows
	surviving := vf.Int("surviving-root", 0, 1)
	wantPref := id0
	if surviving == 1 {
		wantPref = id1
	}
	connected := false
	for _, cfg := range cfgs {
		if vfPreferenceOf(cfg) != wantPref {
			continue // the server no longer has that root: this attempt fails, the dialer tries the next configuration
		}
		req := vfRequestOf(cfg)
		resp, err := nodetls.GenerateServerCertificates(ctx, st, req)
		vf.Assert("server-generates-certificates-for-its-node", err == nil)
		if err != nil {
			return
		}
		b := resp.CertificateBundles[surviving]
		peer := &vfServerPeer{Proto: cfg.NextProtos[0], Chain: [][]byte{b.CertificateDer, b.CaCertificateDer}, HoldsLeafKey: true, RequestsClientCert: true}
		ca, err := x509.ParseCertificate(b.CaCertificateDer)
		if err != nil {
			panic(err)
		}
		peer.AcceptableCAs = [][]byte{ca.RawSubject}
		peer.Conn = vf.RogueServerConn(peer.Proto, peer.Chain, resp.CertificatePrivateKeyPkcs8, true, true, [][]byte{b.CaCertificateDer})
		if tls.Client(peer, cfg).HandshakeContext(ctx) == nil {
			connected = true
		}
	}
	vf.Assert("node-connects-through-the-chain-the-server-still-recognizes", connected)
	vf.Reach("end")
}

func init() { VfHarnesses["VerifC07Pending"] = VerifC07Pending }

// vfLiveServerPeer connects a client-side handshake to the library's own server side. Under the engine the peer
// answers through Respond, which runs the listener's real TLS callback and certificate selection on the client's
// ALPN list; natively the client end of a loopback connection is returned and the real listener accepts the other.
func vfLiveServerPeer(l *InterceptingListener, script *vfs.Script) *vfServerPeerLive {
	peer := &vfServerPeerLive{HoldsLeafKey: true, RequestsClientCert: true}
	if vf.Native() {
		server, client := vf.ConnPair()
		script.Conns, script.Errs = append(script.Conns, server), append(script.Errs, nil)
		go func() { _, _ = l.Accept() }()
		peer.Conn = client
		return peer
	}
	peer.Respond = func(protos []string) (string, [][]byte, bool) {
		var ci ClientInfo
		hello := &tls.ClientHelloInfo{SupportedProtos: protos}
		cfg, err := l.getTlsConfigForClient(&ci)(hello)
		if err != nil || cfg == nil || cfg.GetCertificate == nil || len(cfg.NextProtos) == 0 {
			return "", nil, false
		}
		cert, err := cfg.GetCertificate(hello)
		if err != nil || cert == nil {
			return "", nil, false
		}
		return cfg.NextProtos[0], cert.Certificate, true
	}
	return peer
}

type vfServerPeerLive struct {
	net.Conn
	Proto              string
	Chain              [][]byte
	HoldsLeafKey       bool
	RequestsClientCert bool
	AcceptableCAs      [][]byte
	Respond            func(protos []string) (string, [][]byte, bool)
	RefuseErr          error // what the client's handshake returns when Respond refuses (engine side; natively crypto/tls's *net.OpError for the alert)
}

// C07 (pending authorization): a node that is not authorized yet gets the not-authorized error from its fetch
// attempt and stores no certificates; once the operator has authorized the very same stored key, the next attempt
// returns credentials that the node accepts and stores. Client side (attemptFetch, HandleFetchNodeCredentialsResponse)
// and server side (the listener's TLS callback, FetchNodeCredentials, GenerateServerCertificates, ServerConfig) are
// both the library's code.
func VerifC07Pending() {
	ctx := context.Background()
	t0 := vf.Now()
	vf.ShortScenario(t0, 2*time.Second)
	st, nodeSt := &vfs.Storage{}, &vfs.Storage{}
	vfs.StoreRoots(ctx, st, t0)
	script := &vfs.Script{}
	l, err := NewInterceptingListener(&InterceptingListenerConfiguration{Context: ctx, Storage: st, BaseListener: script})
	if err != nil {
		panic(err)
	}
	creds, err := types.NewNodeCredentials(ctx, nodeSt)
	if err != nil {
		panic(err)
	}
	authorizedFirst := vf.Bool("operator-authorized-before-the-first-attempt")
	authorize := func() {
		req, err := creds.CreateFetchNodeCredentialsRequest(ctx)
		if err != nil {
			panic(err)
		}
		if _, err := registration.AuthorizeNode(ctx, st, req); err != nil {
			panic(err)
		}
	}
	if authorizedFirst {
		authorize()
	}
	before := nodeSt.Get(vfs.KindCreds, string(nodeenrollment.CurrentId))
	resp, err := attemptFetch(ctx, vfLiveServerPeer(l, script), creds)
	if !authorizedFirst {
		vf.Reach("pending")
		vf.Assert("unauthorized-node-gets-the-not-authorized-error", errors.Is(err, nodeenrollment.ErrNotAuthorized))
		vf.Assert("no-response-while-pending", resp == nil)
		vf.Assert("nothing-stored-while-pending", vf.And(len(creds.CertificateBundles) == 0, vf.EqBytes(nodeSt.Get(vfs.KindCreds, string(nodeenrollment.CurrentId)), before)))
		vf.Assert("no-record-created-by-the-attempt", st.Count(vfs.KindNode) == 0)
		authorize() // the operator authorizes the same key
		resp, err = attemptFetch(ctx, vfLiveServerPeer(l, script), creds)
	}
	vf.Assert("authorized-node-fetches-its-credentials", vf.And(err == nil, resp != nil))
	if err != nil || resp == nil {
		return
	}
	_, herr := creds.HandleFetchNodeCredentialsResponse(ctx, nodeSt, resp)
	vf.Assert("node-accepts-the-response", herr == nil)
	if herr == nil {
		loaded, lerr := types.LoadNodeCredentials(ctx, nodeSt, nodeenrollment.CurrentId)
		vf.Assert("credentials-stored-with-both-chains", vf.And(lerr == nil, len(creds.CertificateBundles) == 2))
		if lerr == nil {
			vf.Assert("same-key-as-before-authorization", vf.EqBytes(loaded.CertificatePublicKeyPkix, creds.CertificatePublicKeyPkix))
		}
	}
	vf.Reach("end")
}
