//go:build verif

package protocol

import (
	"context"
	"crypto/tls"
	"errors"
	"net"
	"strings"

	"github.com/hashicorp/nodeenrollment/types"

	"github.com/hashicorp/nodeenrollment"
	"github.com/hashicorp/nodeenrollment/zzverif/vf"
)

var VfHarnesses = map[string]func(){
	"VerifC16Protos":         VerifC16Protos,
	"VerifC14ArbitraryAlpn":  VerifC14ArbitraryAlpn,
	"VerifC14ArbitraryAlpn4": VerifC14ArbitraryAlpn4,
}

// C16: the protocol list reported for a connection is the offered list minus
// certificate-preference entries, same order. Offered entries are arbitrary
// strings; they are kept off the fetch/auth prefixes here so that the closure
// returns through the base configuration (the trimming happens before dispatch).
func VerifC16Protos() {
	base := &tls.Config{}
	l := &InterceptingListener{baseTlsConf: base}
	var ci ClientInfo
	protos := []string{vf.String("p", 48), vf.String("p", 48), vf.String("p", 48)}
	for _, p := range protos {
		vf.Assume(!strings.HasPrefix(p, nodeenrollment.FetchNodeCredsNextProtoV1Prefix))
		vf.Assume(!strings.HasPrefix(p, nodeenrollment.AuthenticateNodeNextProtoV1Prefix))
	}
	cfg, err := l.getTlsConfigForClient(&ci)(&tls.ClientHelloInfo{SupportedProtos: protos})
	vf.Assert("falls-through-to-base", vf.And(err == nil, cfg == base))
	var want []string
	for _, p := range protos {
		if !strings.HasPrefix(p, nodeenrollment.CertificatePreferenceV1Prefix) {
			want = append(want, p)
		}
	}
	got := ci.nextProtos
	vf.Assert("same-length", len(got) == len(want))
	for i := range want {
		if i < len(got) {
			vf.Assert("same-element", got[i] == want[i])
		}
	}
	vf.Reach("end")
}

// C14 (first layer): no ALPN list makes the GetConfigForClient closure panic.
// Storage/fetch/generate functions are replaced by functions returning an error,
// so only the library's own decoding of attacker-controlled entries is executed.
type vfListener struct{}

func (vfListener) Accept() (net.Conn, error) { return nil, errStub }
func (vfListener) Close() error              { return nil }
func (vfListener) Addr() net.Addr            { return nil }

var errStub = errors.New("stubbed out")

var vfAlpnEntries = 3

// VerifC14ArbitraryAlpn4: four arbitrary entries (thorough tier).
func VerifC14ArbitraryAlpn4() { vfAlpnEntries = 4; VerifC14ArbitraryAlpn() }

func VerifC14ArbitraryAlpn() {
	l, err := NewInterceptingListener(&InterceptingListenerConfiguration{
		Context:              context.Background(),
		BaseListener:         vfListener{},
		BaseTlsConfiguration: &tls.Config{},
		FetchCredsFunc: func(context.Context, nodeenrollment.Storage, *types.FetchNodeCredentialsRequest, ...nodeenrollment.Option) (*types.FetchNodeCredentialsResponse, error) {
			return nil, errStub
		},
		GenerateServerCertificatesFunc: func(context.Context, nodeenrollment.Storage, *types.GenerateServerCertificatesRequest, ...nodeenrollment.Option) (*types.GenerateServerCertificatesResponse, error) {
			return nil, errStub
		},
	})
	vf.Assert("listener-built", err == nil)
	var ci ClientInfo
	var protos []string
	for i := 0; i < vfAlpnEntries; i++ {
		protos = append(protos, vf.String("p", 48))
	}
	_, _ = l.getTlsConfigForClient(&ci)(&tls.ClientHelloInfo{SupportedProtos: protos})
	vf.Reach("end")
}

func init() {
	VfHarnesses["VerifC16ConnHonest"] = VerifC16ConnHonest
	VfHarnesses["VerifC16ConnForged"] = VerifC16ConnForged
}
