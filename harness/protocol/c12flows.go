//go:build verif

package protocol

import (
	"context"
	"time"

	"github.com/hashicorp/nodeenrollment"
	"github.com/hashicorp/nodeenrollment/registration"
	"github.com/hashicorp/nodeenrollment/rotation"
	"github.com/hashicorp/nodeenrollment/types"
	"github.com/hashicorp/nodeenrollment/zzverif/vf"
	"github.com/hashicorp/nodeenrollment/zzverif/vfs"
)

func init() { VfHarnesses["VerifC12Flows"] = VerifC12Flows }

// C12 (every flow that writes records): with a storage wrapper configured on the server and another on the node,
// the library's own flows run - root creation, an operator-authorized or token enrollment end to end, an unused
// token left behind, and a node credential rotation. Every record any of them handed to either storage afterwards
// opens with its side's wrapper and with nothing else: not without a wrapper, not with the other side's wrapper.
// (A flow that forgot to pass the wrapper on to one of its Store calls leaves a record that opens without one.)
func VerifC12Flows() {
	ctx := context.Background()
	st, nodeSt := &vfs.Storage{}, &vfs.Storage{}
	t0 := vf.Now()
	vfDeadline = t0.Add(time.Second)
	vf.ShortScenario(t0, time.Second)
	sw, nw := vfC04Wrapper("server-storage", 5), vfC04Wrapper("node-storage", 6)
	sopts := []nodeenrollment.Option{nodeenrollment.WithStorageWrapper(sw)}
	nopts := []nodeenrollment.Option{nodeenrollment.WithStorageWrapper(nw)}
	_, err := rotation.RotateRootCertificates(ctx, st, sopts...)
	vfOK("rotate-roots", err)
	byToken := vf.Bool("enrollment-by-activation-token")
	var creds *types.NodeCredentials
	var req *types.FetchNodeCredentialsRequest
	hopts := append([]nodeenrollment.Option{}, nopts...)
	if byToken {
		_, token, terr := registration.CreateServerLedActivationToken(ctx, st, &types.ServerLedRegistrationRequest{}, sopts...)
		vfOK("create-token", terr)
		creds, err = types.NewNodeCredentials(ctx, nodeSt, append(append([]nodeenrollment.Option{}, nopts...), nodeenrollment.WithActivationToken(token))...)
		vfOK("new-node-credentials", err)
		req, err = creds.CreateFetchNodeCredentialsRequest(ctx, nodeenrollment.WithActivationToken(token))
		vfOK("create-fetch-request", err)
		hopts = append(hopts, nodeenrollment.WithActivationToken(token))
	} else {
		creds, err = types.NewNodeCredentials(ctx, nodeSt, nopts...)
		vfOK("new-node-credentials", err)
		req, err = creds.CreateFetchNodeCredentialsRequest(ctx)
		vfOK("create-fetch-request", err)
		_, err = registration.AuthorizeNode(ctx, st, req, sopts...)
		vfOK("authorize", err)
	}
	resp, err := registration.FetchNodeCredentials(ctx, st, req, sopts...)
	vfOK("fetch", err)
	_, err = creds.HandleFetchNodeCredentialsResponse(ctx, nodeSt, resp, hopts...)
	vfOK("handle-response", err)
	// an unused token stays behind in storage
	_, _, err = registration.CreateServerLedActivationToken(ctx, st, &types.ServerLedRegistrationRequest{}, sopts...)
	vfOK("create-spare-token", err)
	// the node rotates its credentials
	if vf.Bool("node-rotates-its-credentials") {
		newCreds, nerr := types.NewNodeCredentials(ctx, &vfs.Storage{}, nodeenrollment.WithSkipStorage(true))
		vfOK("new-credentials-for-rotation", nerr)
		fetchReq, ferr := newCreds.CreateFetchNodeCredentialsRequest(ctx)
		vfOK("fetch-request-for-rotation", ferr)
		payload, perr := nodeenrollment.EncryptMessage(ctx, fetchReq, creds)
		vfOK("encrypt-rotation-payload", perr)
		_, rerr := rotation.RotateNodeCredentials(ctx, st, &types.RotateNodeCredentialsRequest{CertificatePublicKeyPkix: creds.CertificatePublicKeyPkix, EncryptedFetchNodeCredentialsRequest: payload}, sopts...)
		vfOK("rotate-node-credentials", rerr)
	}
	vf.Assume(vf.TimeLE(vf.Now(), t0.Add(time.Second)))

	load := func(s *vfs.Storage, e vfs.Entry, opts ...nodeenrollment.Option) error {
		var err error
		switch e.Kind {
		case vfs.KindNode:
			_, err = types.LoadNodeInformation(ctx, s, e.Id, opts...)
		case vfs.KindRoots:
			_, err = types.LoadRootCertificates(ctx, s, opts...)
		case vfs.KindCreds:
			_, err = types.LoadNodeCredentials(ctx, s, nodeenrollment.KnownId(e.Id), opts...)
		default:
			_, err = types.LoadServerLedActivationToken(ctx, s, e.Id, opts...)
		}
		return err
	}
	n := 0
	for _, e := range st.Snapshot() {
		n++
		vf.Assert("server-record-opens-with-the-servers-wrapper", load(st, e, sopts...) == nil)
		vf.Assert("server-record-does-not-open-without-a-wrapper", load(st, e) != nil)
		vf.Assert("server-record-does-not-open-with-another-wrapper", load(st, e, nopts...) != nil)
	}
	for _, e := range nodeSt.Snapshot() {
		n++
		vf.Assert("node-record-opens-with-the-nodes-wrapper", load(nodeSt, e, nopts...) == nil)
		vf.Assert("node-record-does-not-open-without-a-wrapper", load(nodeSt, e) != nil)
		vf.Assert("node-record-does-not-open-with-another-wrapper", load(nodeSt, e, sopts...) != nil)
	}
	vf.Assert("records-were-written", n >= 4)
	vf.Reach("end")
}
