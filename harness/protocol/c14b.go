//go:build verif

package protocol

import (
	"context"
	"crypto/tls"
	"errors"
	"net"

	"github.com/hashicorp/nodeenrollment/zzverif/vf"
	"github.com/hashicorp/nodeenrollment/zzverif/vfs"
)

func init() { VfHarnesses["VerifC14Accept"] = VerifC14Accept }

type vfScriptListener struct {
	steps []func() (net.Conn, error)
	next  int
}

func (l *vfScriptListener) Accept() (net.Conn, error) {
	if l.next >= len(l.steps) {
		return nil, net.ErrClosed
	}
	l.next++
	return l.steps[l.next-1]()
}
func (l *vfScriptListener) Close() error   { return nil }
func (l *vfScriptListener) Addr() net.Addr { return nil }

var errBase = errors.New("base listener failure")

// C14 (Accept layer): whatever one peer does, Accept reports it as a temporary error for that connection
// only; base-listener failures are the only non-temporary errors; net.ErrClosed is passed through.
func VerifC14Accept() {
	ctx := context.Background()
	st := &vfs.Storage{}
	// peer 1: arbitrary ALPN entries (may or may not use library prefixes), no certificate
	p1 := &vfs.Peer{Protos: []string{vf.String("alpn", 40), vf.String("alpn", 40)}}
	p1.Conn = vf.AdversaryConn(p1.Protos, nil, 0, false)
	base := &vfScriptListener{}
	base.steps = []func() (net.Conn, error){
		func() (net.Conn, error) { return p1, nil },
		func() (net.Conn, error) { return nil, errBase },
	}
	l, err := NewInterceptingListener(&InterceptingListenerConfiguration{Context: ctx, Storage: st, BaseListener: base,
		BaseTlsConfiguration: &tls.Config{NextProtos: []string{"app"}, Certificates: []tls.Certificate{{}}}})
	vf.Assert("listener-built", err == nil)

	isTemp := func(err error) bool {
		t, ok := err.(interface{ Temporary() bool })
		return ok && t.Temporary()
	}
	c1, e1 := l.Accept()
	if e1 != nil {
		vf.Reach("peer-rejected")
		vf.Assert("peer-caused-error-is-temporary", isTemp(e1))
		vf.Assert("no-conn-with-error", c1 == nil)
	} else {
		vf.Reach("peer-accepted-unauthenticated")
	}
	_, e2 := l.Accept()
	vf.Assert("base-listener-error-is-not-temporary", vf.And(e2 != nil, !isTemp(e2)))
	_, e3 := l.Accept()
	vf.Assert("closed-is-passed-through", errors.Is(e3, net.ErrClosed))
	vf.Reach("end")
}
