//go:build verif

package protocol

import (
	"context"
	"crypto/tls"
	"crypto/x509"
	"encoding/base64"
	"errors"
	"net"
	"strings"
	"time"

	"github.com/hashicorp/nodeenrollment"
	nodetls "github.com/hashicorp/nodeenrollment/tls"
	"github.com/hashicorp/nodeenrollment/types"
	"github.com/hashicorp/nodeenrollment/zzverif/vf"
	"github.com/hashicorp/nodeenrollment/zzverif/vfs"
	"google.golang.org/protobuf/proto"
	"google.golang.org/protobuf/types/known/timestamppb"
)

func init() {
	VfHarnesses["VerifC14Accept"] = func() { verifC14Accept(false) }
	VfHarnesses["VerifC14AcceptThenHonest"] = func() { verifC14Accept(true) }
	VfHarnesses["VerifC14ArbitraryAlpnReal"] = VerifC14ArbitraryAlpnReal
}

var errBase = errors.New("base listener failure")

func vfIsTemp(err error) bool {
	t, ok := err.(interface{ Temporary() bool })
	return ok && t.Temporary()
}

// vfHonestAuthPeer is a registered node (universe key 2) dialling correctly: its record is stored in st.
func vfHonestAuthPeer(ctx context.Context, st *vfs.Storage, cur *types.RootCertificate, curTmpl *x509.Certificate) *vfs.Peer {
	id, _ := nodeenrollment.KeyIdFromPkix(vf.Pkix(2))
	if err := (&types.NodeInformation{Id: id, CertificatePublicKeyPkix: vf.Pkix(2)}).Store(ctx, st); err != nil {
		panic(err)
	}
	nonce := []byte("a-fresh-connection-nonce-32-byte")
	req := &types.GenerateServerCertificatesRequest{CertificatePublicKeyPkix: vf.Pkix(2), Nonce: nonce, NonceSignature: vf.SigBy(2, nonce)}
	reqBytes, err := proto.Marshal(req)
	if err != nil {
		panic(err)
	}
	protos, err := nodetls.BreakIntoNextProtos(nodeenrollment.AuthenticateNodeNextProtoV1Prefix, base64.RawStdEncoding.EncodeToString(reqBytes))
	if err != nil {
		panic(err)
	}
	prefId, _ := nodeenrollment.KeyIdFromPkix(vf.Pkix(0))
	protos = append(protos, nodeenrollment.CertificatePreferenceV1Prefix+prefId)
	p := &vfs.Peer{Protos: protos, Chain: [][]byte{vfNodeLeaf(curTmpl, 2, 0, x509.ExtKeyUsageClientAuth)}, HoldsLeafKey: true}
	p.Conn = vf.AdversaryConn(p.Protos, p.Chain, 2, true)
	return p
}

// C14 (Accept layer): whatever one peer does - arbitrary ALPN entries under or outside the library prefixes, bytes
// that are not TLS, a fatal alert after the server's flight - Accept reports it as a temporary error for that
// connection only, an honest registered node connecting right afterwards on the same listener is authenticated,
// base-listener failures are the only non-temporary errors, and net.ErrClosed is passed through.
func VerifC14Accept()           { verifC14Accept(false) }
func VerifC14AcceptThenHonest() { verifC14Accept(true) }

// followUp=false: the misbehaving peer's ALPN entries are arbitrary strings. followUp=true: they are fixed malformed
// entries (a bare library prefix and a non-base64 chunk), and an honest registered node connects right afterwards.
func verifC14Accept(followUp bool) {
	ctx := context.Background()
	st := &vfs.Storage{}
	t0 := vf.Now()
	cur, curTmpl := vfs.MkRoot("current", 0, t0.Add(-time.Hour), t0.Add(time.Hour))
	next, _ := vfs.MkRoot("next", 1, t0.Add(-time.Hour), t0.Add(time.Hour))
	if err := (&types.RootCertificates{Id: nodeenrollment.RootsMessageId, Current: cur, Next: next}).Store(ctx, st); err != nil {
		panic(err)
	}
	// the misbehaving peer
	p1 := &vfs.Peer{AbortErr: vfs.RemoteAbort{}}
	kind := vf.Int("peer-kind", 0, 5)
	switch kind {
	case 0: // arbitrary ALPN entries (TLS cannot carry an empty name)
		a, b := vf.String("alpn", 40), vf.String("alpn", 40)
		vf.Assume(vf.And(len(a) >= 1, len(b) >= 1))
		p1.Protos = []string{a, b}
		if followUp {
			p1.Protos = []string{nodeenrollment.AuthenticateNodeNextProtoV1Prefix, nodeenrollment.FetchNodeCredsNextProtoV1Prefix + "00-!!not base64!!"}
		}
	case 1: // not TLS at all
		p1.NotTLS = true
	case 3: // a well-formed ClientHello that carries no ALPN extension at all
		p1.Protos = nil
	case 5: // a well-formed authentication request by an unregistered key that names a node ID nobody has
		cnonce := []byte("a-fresh-connection-nonce-32-byte")
		areq, _ := proto.Marshal(&types.GenerateServerCertificatesRequest{CertificatePublicKeyPkix: vf.Pkix(3), Nonce: cnonce, NonceSignature: vf.SigBy(3, cnonce), NodeId: "no-such-node"})
		p1.Protos, _ = nodetls.BreakIntoNextProtos(nodeenrollment.AuthenticateNodeNextProtoV1Prefix, base64.RawStdEncoding.EncodeToString(areq))
	default: // an unregistered node's well-formed fetch, aborted with a fatal alert once the server has answered (2),
		// or completed and followed by a connection reset, so that the server's own Close fails (4)
		info := &types.FetchNodeCredentialsInfo{CertificatePublicKeyPkix: vf.Pkix(3), CertificatePublicKeyType: types.KEYTYPE_ED25519,
			Nonce: []byte("an-unregistered-nodes-nonce-32-b"), EncryptionPublicKeyBytes: vf.X25519Pub(0), EncryptionPublicKeyType: types.KEYTYPE_X25519,
			NotBefore: timestamppb.New(t0.Add(-time.Hour)), NotAfter: timestamppb.New(t0.Add(time.Hour))}
		bundle, _ := proto.Marshal(info)
		reqBytes, _ := proto.Marshal(&types.FetchNodeCredentialsRequest{Bundle: bundle, BundleSignature: vf.SigBy(3, bundle)})
		p1.Protos, _ = nodetls.BreakIntoNextProtos(nodeenrollment.FetchNodeCredsNextProtoV1Prefix, base64.RawStdEncoding.EncodeToString(reqBytes))
		if kind == 2 {
			p1.Abort = true
		} else {
			// a node without credentials presents a throw-away self-signed certificate
			tmpl := vfs.RootTemplate(6, t0.Add(-time.Hour), t0.Add(time.Hour))
			p1.Chain, p1.HoldsLeafKey = [][]byte{vfs.MkCert(tmpl, tmpl, 6, 6)}, true
			p1.Reset, p1.ResetErr = true, vfs.ConnReset{}
		}
	}
	if p1.Reset {
		p1.Conn = vf.AdversaryConnReset(p1.Protos, p1.Chain, 6)
	} else {
		p1.Conn = vf.AdversaryConnMode(p1.Protos, nil, 0, false, p1.NotTLS, p1.Abort)
	}
	base := &vfs.Script{Conns: []net.Conn{p1, nil, nil}, Errs: []error{nil, nil, errBase}}
	if followUp {
		base = &vfs.Script{Conns: []net.Conn{p1, nil, vfHonestAuthPeer(ctx, st, cur, curTmpl), nil}, Errs: []error{nil, nil, nil, errBase}}
	}
	var baseCfg *tls.Config
	if vf.Bool("application-has-a-base-tls-configuration") {
		appKey, kerr := x509.ParsePKCS8PrivateKey(cur.PrivateKeyPkcs8)
		if kerr != nil {
			panic(kerr)
		}
		baseCfg = &tls.Config{NextProtos: []string{"app"}, Certificates: []tls.Certificate{{Certificate: [][]byte{cur.CertificateDer}, PrivateKey: appKey}}}
	}
	// the server's storage may or may not support lookup by node ID (and then reports an unknown ID either way)
	var storage nodeenrollment.Storage = st
	if vf.Bool("storage-supports-node-id-lookup") {
		storage = &vfs.NodeIdStorage{Storage: st, EmptyAsSet: vf.Bool("unknown-node-id-reported-as-empty-set")}
	}
	l, err := NewInterceptingListener(&InterceptingListenerConfiguration{Context: ctx, Storage: storage, BaseListener: base, BaseTlsConfiguration: baseCfg})
	vf.Assert("listener-built", err == nil)

	c1, e1 := l.Accept()
	if e1 != nil {
		vf.Reach("peer-rejected")
		vf.Assert("peer-caused-error-is-temporary", vfIsTemp(e1))
		vf.Assert("no-conn-with-error", c1 == nil)
	} else {
		vf.Reach("peer-accepted")
		vf.Assert("misbehaving-peer-is-not-authenticated", !strings.HasPrefix(c1.(*Conn).ConnectionState().NegotiatedProtocol, nodeenrollment.AuthenticateNodeNextProtoV1Prefix))
	}
	// the nil connection of the script is skipped; the honest node is next
	if followUp {
		c2, e2 := l.Accept()
		vf.Assume(vf.TimeLE(vf.Now(), t0.Add(time.Second)))
		vf.Assert("honest-node-still-connects", e2 == nil)
		if e2 == nil {
			vf.Reach("honest-node-connected")
			vf.Assert("honest-node-is-authenticated", strings.HasPrefix(c2.(*Conn).ConnectionState().NegotiatedProtocol, nodeenrollment.AuthenticateNodeNextProtoV1Prefix))
		}
	}
	_, e3 := l.Accept()
	vf.Assert("base-listener-error-is-not-temporary", vf.And(e3 != nil, !vfIsTemp(e3)))
	_, e4 := l.Accept()
	vf.Assert("closed-is-passed-through", errors.Is(e4, net.ErrClosed))
	vf.Reach("end")
}

// C14 (ALPN layer, real callees): the TLS callback on two arbitrary ALPN strings with the real fetch and
// certificate-generation functions behind it (whatever decodes flows into them with arbitrary field values).
func VerifC14ArbitraryAlpnReal() {
	ctx := context.Background()
	st := &vfs.Storage{}
	vfs.StoreRoots(ctx, st, vf.Now())
	// either kind of storage: with the optional lookup by node ID (whatever node ID decodes from the peer's bytes is
	// then looked up, and is unknown) or without it
	var storage nodeenrollment.Storage = st
	if vf.Bool("storage-supports-node-id-lookup") {
		storage = &vfs.NodeIdStorage{Storage: st, EmptyAsSet: vf.Bool("unknown-node-id-reported-as-empty-set")}
	}
	l, err := NewInterceptingListener(&InterceptingListenerConfiguration{Context: ctx, Storage: storage, BaseListener: &vfs.Script{}})
	vf.Assert("listener-built", err == nil)
	var ci ClientInfo
	a, b := vf.String("p", 48), vf.String("p", 48)
	vf.Assume(vf.And(len(a) >= 1, len(b) >= 1))
	_, _ = l.getTlsConfigForClient(&ci)(&tls.ClientHelloInfo{SupportedProtos: []string{a, b}})
	vf.Reach("end")
}
