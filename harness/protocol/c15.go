//go:build verif

package protocol

import (
	"crypto/x509"
	"net"
	"context"
	"crypto/tls"
	"encoding/base64"
	"strings"
	"time"

	"github.com/hashicorp/nodeenrollment"
	"github.com/hashicorp/nodeenrollment/registration"
	nodetls "github.com/hashicorp/nodeenrollment/tls"
	"github.com/hashicorp/nodeenrollment/types"
	"github.com/hashicorp/nodeenrollment/zzverif/vf"
	"github.com/hashicorp/nodeenrollment/zzverif/vfs"
	"github.com/mr-tron/base58"
	"google.golang.org/protobuf/proto"
	"google.golang.org/protobuf/types/known/timestamppb"
)

func init() {
	VfHarnesses["VerifC15WriteSet"] = VerifC15WriteSet
	VfHarnesses["VerifC15WriteSetStubbed"] = VerifC15WriteSetStubbed
}

// vfSpareUntouched is the natively observable form of write-set isolation for an option slice: the slots between
// its length and its capacity still hold what they held before the handshake (nil).
func vfSpareUntouched(opts []nodeenrollment.Option) bool {
	full := opts[:cap(opts)]
	ok := true
	for i := len(opts); i < len(full); i++ {
		ok = ok && full[i] == nil
	}
	return ok
}

// C15 (reduced claim, DESIGN 4/C15): one complete handshake callback with the library's own fetch and
// certificate-generation functions behind it writes nothing into memory that existed before it started - in
// particular not into the application's option slice nor into the listener's own copy of it - for every length
// and spare capacity of that slice, every capacity the runtime may have given the listener's copy, and each kind
// of handshake: a token enrollment carrying state (which appends to the options inside FetchNodeCredentials), a
// node-led fetch, an authentication attempt, and a client that falls through to the base configuration.
func VerifC15WriteSet() {
	ctx := context.Background()
	st := &vfs.Storage{}
	t0 := vf.Now()
	vf.ShortScenario(t0, time.Second)
	vfs.StoreRoots(ctx, st, t0)
	_, token, err := registration.CreateServerLedActivationToken(ctx, st, &types.ServerLedRegistrationRequest{}, nodeenrollment.WithState(vfs.State("token-state")))
	if err != nil {
		panic(err)
	}
	n := []int{0, 1, 5}[vf.Int("optlen-choice", 0, 2)] // 5: the first length whose copy the Go runtime rounds up to a larger capacity
	spare := vf.Int("sparecap", 0, 1)
	opts := make([]nodeenrollment.Option, n, n+spare)
	for i := range opts {
		opts[i] = nodeenrollment.WithNonce("app-option")
	}
	// one of the application's options carries a value with interior structure: a state the application wants on
	// every node record. It is shared by all handshakes, so no handshake may write into it either.
	appState := vfs.State("app-state")
	if n > 0 {
		opts[0] = nodeenrollment.WithState(appState)
	}
	vf.AppendSpare(1) // whatever capacity the runtime hands out if the constructor copies the options
	l, err := NewInterceptingListener(&InterceptingListenerConfiguration{Context: ctx, Storage: st, BaseListener: &vfs.Script{},
		BaseTlsConfiguration: &tls.Config{}, Options: opts})
	vf.AppendSpare(0)
	vf.Assert("listener-built", err == nil)

	var protos []string
	switch vf.Int("handshake-kind", 0, 3) {
	case 0, 1: // a fetch: by activation token (0) or node-led and not yet authorized (1)
		nonce := []byte("a-node-led-registration-nonce-32")
		info := &types.FetchNodeCredentialsInfo{CertificatePublicKeyPkix: vf.Pkix(2), CertificatePublicKeyType: types.KEYTYPE_ED25519,
			Nonce: nonce, EncryptionPublicKeyBytes: vf.X25519Pub(0), EncryptionPublicKeyType: types.KEYTYPE_X25519,
			NotBefore: timestamppb.New(t0.Add(-time.Hour)), NotAfter: timestamppb.New(t0.Add(time.Hour))}
		if vf.Bool("fetch-by-token") {
			raw, derr := base58.FastBase58Decoding(strings.TrimPrefix(token, nodeenrollment.ServerLedActivationTokenPrefix))
			if derr != nil {
				panic(derr)
			}
			info.Nonce = raw
		}
		bundle, _ := proto.Marshal(info)
		reqBytes, _ := proto.Marshal(&types.FetchNodeCredentialsRequest{Bundle: bundle, BundleSignature: vf.SigBy(2, bundle)})
		protos, _ = nodetls.BreakIntoNextProtos(nodeenrollment.FetchNodeCredsNextProtoV1Prefix, base64.RawStdEncoding.EncodeToString(reqBytes))
	case 2: // an authentication attempt by an unregistered key
		nonce := []byte("a-fresh-connection-nonce-32-byte")
		reqBytes, _ := proto.Marshal(&types.GenerateServerCertificatesRequest{CertificatePublicKeyPkix: vf.Pkix(3), Nonce: nonce, NonceSignature: vf.SigBy(3, nonce)})
		protos, _ = nodetls.BreakIntoNextProtos(nodeenrollment.AuthenticateNodeNextProtoV1Prefix, base64.RawStdEncoding.EncodeToString(reqBytes))
	default: // not a library client
		protos = []string{"h2"}
	}
	vf.FreezeHeap()
	var ci ClientInfo
	_, _ = l.getTlsConfigForClient(&ci)(&tls.ClientHelloInfo{SupportedProtos: protos})
	vf.Assert("no-shared-write", vf.And(vfSpareUntouched(opts), vfSpareUntouched(l.options)))
	vf.Assert("application-option-values-untouched", len(appState.Fields) == 1 && vfs.StateValue(appState) == "app-state")
	vf.Reach("end")
}

// The same obligation with the storage-touching functions replaced by stubs, which keeps the run small enough to
// let the option slice grow to 8 entries with up to 4 spare slots.
func VerifC15WriteSetStubbed() {
	n := vf.Int("optlen", 0, 8)
	spare := vf.Int("sparecap", 0, 4)
	opts := make([]nodeenrollment.Option, n, n+spare)
	for i := range opts {
		opts[i] = nodeenrollment.WithNonce("app-option")
	}
	vf.AppendSpare(2)
	l, err := NewInterceptingListener(&InterceptingListenerConfiguration{
		Context:              context.Background(),
		BaseListener:         vfListener{},
		BaseTlsConfiguration: &tls.Config{},
		Options:              opts,
		FetchCredsFunc: func(ctx context.Context, st nodeenrollment.Storage, req *types.FetchNodeCredentialsRequest, opt ...nodeenrollment.Option) (*types.FetchNodeCredentialsResponse, error) {
			_ = append(opt, nodeenrollment.WithState(nil))    // what the token path of the real function does with its options
			return &types.FetchNodeCredentialsResponse{}, nil // "not authorized yet" canary
		},
		GenerateServerCertificatesFunc: func(context.Context, nodeenrollment.Storage, *types.GenerateServerCertificatesRequest, ...nodeenrollment.Option) (*types.GenerateServerCertificatesResponse, error) {
			return nil, errStub
		},
	})
	vf.AppendSpare(0)
	vf.Assert("listener-built", err == nil)
	vf.FreezeHeap()
	var ci ClientInfo
	hello := &tls.ClientHelloInfo{SupportedProtos: []string{nodeenrollment.FetchNodeCredsNextProtoV1Prefix + "00-" + vf.String("payload", 16)}}
	_, _ = l.getTlsConfigForClient(&ci)(hello)
	vf.Assert("no-shared-write", vf.And(vfSpareUntouched(opts), vfSpareUntouched(l.options)))
	vf.Reach("end")
}

func init() { VfHarnesses["VerifC15AfterRejected"] = VerifC15AfterRejected }

// C15 (what is reported for a connection is its own): a registered node's authentication hello carrying client
// state and an extra protocol is processed by the TLS callback and then rejected (the peer does not hold the key of
// the certificate it presents, or aborts); the next connection on the same listener is a plain TLS client of the
// application, with no ALPN at all or with the application protocol only. What Accept reports for it - protocol
// list and client state - is what it would report had it been the only connection.
func VerifC15AfterRejected() {
	ctx := context.Background()
	t0 := vf.Now()
	vf.ShortScenario(t0, time.Second)
	st, creds := vfC16Server(ctx, t0)
	nonce := []byte("a-fresh-connection-nonce-32-byte")
	state, err := proto.Marshal(vfs.State("rejected-peers-state"))
	if err != nil {
		panic(err)
	}
	reqBytes, _ := proto.Marshal(&types.GenerateServerCertificatesRequest{CertificatePublicKeyPkix: vf.Pkix(2), Nonce: nonce, NonceSignature: vf.SigBy(2, nonce),
		ClientState: state, ClientStateSignature: vf.SigBy(2, state)})
	protos, _ := nodetls.BreakIntoNextProtos(nodeenrollment.AuthenticateNodeNextProtoV1Prefix, base64.RawStdEncoding.EncodeToString(reqBytes))
	protos = append(protos, "rejected-proto")
	first := &vfs.Peer{Protos: protos, Chain: [][]byte{creds.CertificateBundles[0].CertificateDer}, AbortErr: vfs.RemoteAbort{}}
	if vf.Bool("first-peer-aborts") {
		first.Abort = true
		first.Conn = vf.AdversaryConnMode(first.Protos, nil, 0, false, false, true)
	} else { // presents the node's certificate without holding its key
		first.Conn = vf.AdversaryConn(first.Protos, first.Chain, 2, false)
	}
	second := &vfs.Peer{}
	if vf.Bool("second-peer-offers-the-application-protocol") {
		second.Protos = []string{"app"}
	}
	second.Conn = vf.AdversaryConn(second.Protos, nil, 0, false)
	appTmpl := vfs.RootTemplate(6, t0.Add(-time.Hour), t0.Add(time.Hour))
	appKey, kerr := x509.ParsePKCS8PrivateKey(vf.Pkcs8(6))
	if kerr != nil {
		panic(kerr)
	}
	baseCfg := &tls.Config{NextProtos: []string{"app"}, Certificates: []tls.Certificate{{Certificate: [][]byte{vfs.MkCert(appTmpl, appTmpl, 6, 6)}, PrivateKey: appKey}}}
	l, err := NewInterceptingListener(&InterceptingListenerConfiguration{Context: ctx, Storage: st,
		BaseListener: &vfs.Script{Conns: []net.Conn{first, second}, Errs: []error{nil, nil}}, BaseTlsConfiguration: baseCfg})
	vf.Assert("listener-built", err == nil)
	c1, e1 := l.Accept()
	vf.Assert("first-peer-rejected", e1 != nil && c1 == nil)
	c2, e2 := l.Accept()
	vf.Assume(vf.TimeLE(vf.Now(), t0.Add(time.Second)))
	vf.Assert("plain-client-accepted", e2 == nil && c2 != nil)
	if e2 == nil && c2 != nil {
		pc := c2.(*Conn)
		vf.Assert("protocol-list-is-this-connections-own", vfSameList(pc.ClientNextProtos(), second.Protos))
		vf.Assert("no-client-state-from-another-connection", pc.ClientState() == nil)
	}
	vf.Reach("end")
}
