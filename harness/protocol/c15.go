//go:build verif

package protocol

import (
	"context"
	"crypto/tls"

	"github.com/hashicorp/nodeenrollment"
	"github.com/hashicorp/nodeenrollment/types"
	"github.com/hashicorp/nodeenrollment/zzverif/vf"
)

func init() { VfHarnesses["VerifC15WriteSet"] = VerifC15WriteSet }

// C15 (reduced claim): one handshake's GetConfigForClient run writes nothing into
// memory that existed before it started, for every length and spare capacity of
// the application's option slice.
func VerifC15WriteSet() {
	n := vf.Int("optlen", 0, 2)
	spare := vf.Int("sparecap", 0, 2)
	opts := make([]nodeenrollment.Option, n, n+spare)
	for i := range opts {
		opts[i] = nodeenrollment.WithNonce("app-option")
	}
	l, err := NewInterceptingListener(&InterceptingListenerConfiguration{
		Context:              context.Background(),
		BaseListener:         vfListener{},
		BaseTlsConfiguration: &tls.Config{},
		Options:              opts,
		FetchCredsFunc: func(context.Context, nodeenrollment.Storage, *types.FetchNodeCredentialsRequest, ...nodeenrollment.Option) (*types.FetchNodeCredentialsResponse, error) {
			return &types.FetchNodeCredentialsResponse{}, nil // "not authorized yet" canary
		},
		GenerateServerCertificatesFunc: func(context.Context, nodeenrollment.Storage, *types.GenerateServerCertificatesRequest, ...nodeenrollment.Option) (*types.GenerateServerCertificatesResponse, error) {
			return nil, errStub
		},
	})
	vf.Assert("listener-built", err == nil)
	vf.FreezeHeap()
	var ci ClientInfo
	hello := &tls.ClientHelloInfo{SupportedProtos: []string{nodeenrollment.FetchNodeCredsNextProtoV1Prefix + "00-" + vf.String("payload", 16)}}
	_, _ = l.getTlsConfigForClient(&ci)(hello)
	// natively observable form of the same fact: the spare slots of the application's array are untouched
	full := opts[:cap(opts)]
	for i := n; i < len(full); i++ {
		vf.Assert("spare-slot-untouched", full[i] == nil)
	}
	vf.Reach("end")
}
