//go:build verif

package protocol

import (
	"context"
	"crypto/tls"
	"crypto/x509"
	"errors"
	"net"
	"time"

	"github.com/hashicorp/nodeenrollment"
	"github.com/hashicorp/nodeenrollment/registration"
	"github.com/hashicorp/nodeenrollment/types"
	"github.com/hashicorp/nodeenrollment/zzverif/vf"
	"github.com/hashicorp/nodeenrollment/zzverif/vfs"
)

func init() { VfHarnesses["VerifC07Dial"] = VerifC07Dial }

func (p *vfServerPeerLive) Close() error {
	if p.Conn != nil {
		return p.Conn.Close()
	}
	return nil
}

// vfQueuedServerPeer is vfLiveServerPeer without its own accepting goroutine: natively the harness serves all
// queued connections from one goroutine, in order.
func vfQueuedServerPeer(l *InterceptingListener, script *vfs.Script) *vfServerPeerLive {
	peer := &vfServerPeerLive{HoldsLeafKey: true, RequestsClientCert: true}
	if vf.Native() {
		server, client := vf.ConnPair()
		script.Conns, script.Errs = append(script.Conns, server), append(script.Errs, nil)
		peer.Conn = client
		return peer
	}
	peer.Respond = func(protos []string) (string, [][]byte, bool) {
		var ci ClientInfo
		hello := &tls.ClientHelloInfo{SupportedProtos: protos}
		cfg, err := l.getTlsConfigForClient(&ci)(hello)
		if err != nil || cfg == nil || cfg.GetCertificate == nil || len(cfg.NextProtos) == 0 {
			return "", nil, false
		}
		cert, err := cfg.GetCertificate(hello)
		if err != nil || cert == nil {
			return "", nil, false
		}
		// the certificate request names the server's roots
		peer.AcceptableCAs = nil
		if roots, rerr := types.LoadRootCertificates(l.ctx, l.storage); rerr == nil {
			for _, r := range []*types.RootCertificate{roots.Current, roots.Next} {
				if ca, perr := x509.ParseCertificate(r.CertificateDer); perr == nil {
					peer.AcceptableCAs = append(peer.AcceptableCAs, ca.RawSubject)
				}
			}
		}
		return cfg.NextProtos[0], cert.Certificate, true
	}
	return peer
}

// C07 (the whole of protocol.Dial): an operator-authorized node dials. It either holds its credentials already or
// fetches them on the first connection of this very Dial, from the library's own server side. The connections
// that follow are answered by the node's own server, by a rogue peer (a self-signed certificate whose key it
// holds, selecting whatever the node offered), or by a rogue peer first and the node's own server next. Dial
// returns a connection only if the node's own server answered, and it does return one whenever that server answers
// one of the attempts - a failed attempt leaves nothing behind that spoils the next.
func VerifC07Dial() {
	ctx := context.Background()
	t0 := vf.Now()
	vf.ShortScenario(t0, 2*time.Second)
	st, nodeSt := &vfs.Storage{}, &vfs.Storage{}
	vfs.StoreRoots(ctx, st, t0)
	script := &vfs.Script{}
	l, err := NewInterceptingListener(&InterceptingListenerConfiguration{Context: ctx, Storage: st, BaseListener: script})
	if err != nil {
		panic(err)
	}
	creds, err := types.NewNodeCredentials(ctx, nodeSt)
	if err != nil {
		panic(err)
	}
	req, err := creds.CreateFetchNodeCredentialsRequest(ctx)
	if err != nil {
		panic(err)
	}
	if _, err := registration.AuthorizeNode(ctx, st, req); err != nil {
		panic(err)
	}
	holds := vf.Bool("node-already-holds-its-credentials")
	if holds {
		resp, err := registration.FetchNodeCredentials(ctx, st, req)
		if err != nil {
			panic(err)
		}
		if _, err := creds.HandleFetchNodeCredentialsResponse(ctx, nodeSt, resp); err != nil {
			panic(err)
		}
	}
	rogueTmpl := vfs.RootTemplate(6, t0.Add(-time.Hour), t0.Add(time.Hour))
	rogueChain := [][]byte{vfs.MkCert(rogueTmpl, rogueTmpl, 6, 6)}
	// the rogue names the real roots in its certificate request (their subjects are public)
	var rootSubjects [][]byte
	if roots, rerr := types.LoadRootCertificates(ctx, st); rerr == nil {
		for _, r := range []*types.RootCertificate{roots.Current, roots.Next} {
			if ca, perr := x509.ParseCertificate(r.CertificateDer); perr == nil {
				rootSubjects = append(rootSubjects, ca.RawSubject)
			}
		}
	}
	rogue := func() net.Conn {
		p := &vfServerPeerLive{HoldsLeafKey: true, RequestsClientCert: true, AcceptableCAs: rootSubjects}
		p.Respond = func(protos []string) (string, [][]byte, bool) {
			if len(protos) == 0 {
				return "", nil, false
			}
			return protos[0], rogueChain, true
		}
		p.Conn = vf.RespondingServerConn(p.Respond, vf.Pkcs8(6), true, rootSubjects)
		return p
	}
	var peers []net.Conn
	own := 0
	if !holds {
		peers, own = append(peers, vfQueuedServerPeer(l, script)), own+1
	}
	// a server that refuses the hello with an alert (it no longer has the root the node asked for): the node sees a
	// *net.OpError, as crypto/tls reports every remote alert
	refuser := func() net.Conn {
		p := &vfServerPeerLive{HoldsLeafKey: true, RequestsClientCert: true, RefuseErr: &net.OpError{Op: "remote error", Err: errors.New("tls: unrecognized name")}}
		p.Respond = func(protos []string) (string, [][]byte, bool) { return "", nil, false }
		p.Conn = vf.RespondingServerConn(p.Respond, vf.Pkcs8(6), true, rootSubjects)
		return p
	}
	answering := vf.Int("answering-peers", 0, 3)
	switch answering {
	case 3:
		peers, own = append(peers, refuser(), vfQueuedServerPeer(l, script)), own+1
	case 0:
		peers, own = append(peers, vfQueuedServerPeer(l, script)), own+1
	case 1:
		peers = append(peers, rogue(), rogue())
	default:
		peers, own = append(peers, rogue(), vfQueuedServerPeer(l, script)), own+1
	}
	if vf.Native() {
		go func() {
			for i := 0; i < own; i++ {
				_, _ = l.Accept()
			}
		}()
	}
	conn, derr := Dial(ctx, nodeSt, vf.DialScript(peers...))
	vf.Assume(vf.TimeLE(vf.Now(), t0.Add(2*time.Second)))
	if answering == 1 {
		vf.Reach("only-rogue-peers")
		vf.Assert("dial-completes-only-with-a-holder-of-a-trusted-root", derr != nil && conn == nil)
	} else {
		vf.Reach("own-server-answers")
		vf.Assert("dial-reaches-the-nodes-own-server", derr == nil && conn != nil)
	}
	if !holds {
		stored, lerr := types.LoadNodeCredentials(ctx, nodeSt, nodeenrollment.CurrentId)
		vf.Assert("fetched-credentials-stored", lerr == nil && len(stored.CertificateBundles) == 2)
	}
}
