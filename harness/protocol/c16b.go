//go:build verif

package protocol

import (
	"context"
	"crypto/x509"
	"encoding/base64"
	"strings"
	"time"

	"github.com/hashicorp/nodeenrollment"
	nodetls "github.com/hashicorp/nodeenrollment/tls"
	"github.com/hashicorp/nodeenrollment/types"
	"github.com/hashicorp/nodeenrollment/zzverif/vf"
	"github.com/hashicorp/nodeenrollment/zzverif/vfs"
	"google.golang.org/protobuf/proto"
)

// vfC16Server: roots (both valid), node record for universe key 2, and the node's two certificate chains.
func vfC16Server(ctx context.Context, t0 time.Time) (*vfs.Storage, *types.NodeCredentials) {
	st := &vfs.Storage{}
	cur, curTmpl := vfs.MkRoot("current", 0, t0.Add(-time.Hour), t0.Add(time.Hour))
	next, nextTmpl := vfs.MkRoot("next", 1, t0.Add(-time.Hour), t0.Add(time.Hour))
	if err := (&types.RootCertificates{Id: nodeenrollment.RootsMessageId, Current: cur, Next: next}).Store(ctx, st); err != nil {
		panic(err)
	}
	id, _ := nodeenrollment.KeyIdFromPkix(vf.Pkix(2))
	if err := (&types.NodeInformation{Id: id, CertificatePublicKeyPkix: vf.Pkix(2)}).Store(ctx, st); err != nil {
		panic(err)
	}
	creds := &types.NodeCredentials{Id: string(nodeenrollment.CurrentId), CertificatePublicKeyPkix: vf.Pkix(2), CertificatePrivateKeyPkcs8: vf.Pkcs8(2), CertificatePrivateKeyType: types.KEYTYPE_ED25519,
		CertificateBundles: []*types.CertificateBundle{
			{CertificateDer: vfNodeLeaf(curTmpl, 2, 0, x509.ExtKeyUsageClientAuth), CaCertificateDer: cur.CertificateDer},
			{CertificateDer: vfNodeLeaf(nextTmpl, 2, 1, x509.ExtKeyUsageClientAuth), CaCertificateDer: next.CertificateDer},
		}}
	return st, creds
}

func vfWithoutPreference(offered []string) []string {
	var want []string
	for _, p := range offered {
		if !strings.HasPrefix(p, nodeenrollment.CertificatePreferenceV1Prefix) {
			want = append(want, p)
		}
	}
	return want
}

func vfSameList(a, b []string) bool {
	if len(a) != len(b) {
		return false
	}
	ok := true
	for i := range a {
		ok = vf.And(ok, a[i] == b[i])
	}
	return ok
}

// C16 (end to end, honest client side): the node's own ClientConfigs assembles the ALPN list (request chunks, the
// application's extra protocols, the certificate preference) and signs its state; the connection the listener
// returns reports exactly the offered list minus the preference entry - as a copy - and exactly that state.
func VerifC16ConnHonest() {
	ctx := context.Background()
	t0 := vf.Now()
	vf.ShortScenario(t0, time.Second)
	st, creds := vfC16Server(ctx, t0)
	var copts []nodeenrollment.Option
	hasState := vf.Bool("node-supplies-state")
	stateVal := vf.String("state-value", 8)
	if hasState {
		copts = append(copts, nodeenrollment.WithState(vfs.State(stateVal)))
	}
	var extras []string
	switch vf.Int("extra-protocols", 0, 2) {
	case 1:
		extras = []string{vf.String("extra", 12)}
	case 2:
		extras = []string{vf.String("extra", 12), vf.String("extra", 12)}
	}
	for _, x := range extras {
		vf.Assume(vf.And(len(x) >= 1, vf.And(vf.Not(strings.HasPrefix(x, nodeenrollment.FetchNodeCredsNextProtoV1Prefix)), vf.Not(strings.HasPrefix(x, nodeenrollment.AuthenticateNodeNextProtoV1Prefix)))))
	}
	if extras != nil {
		copts = append(copts, nodeenrollment.WithExtraAlpnProtos(extras))
	}
	cfgs, err := nodetls.ClientConfigs(ctx, creds, copts...)
	if err != nil || len(cfgs) == 0 {
		panic("client configs")
	}
	offered := cfgs[0].NextProtos
	if vf.Bool("preference-entry-offered-first") { // a client is free to order its list differently
		offered = append([]string{offered[len(offered)-1]}, offered[:len(offered)-1]...)
	}
	peer := &vfs.Peer{Protos: offered, Chain: [][]byte{creds.CertificateBundles[0].CertificateDer}, HoldsLeafKey: true}
	peer.Conn = vf.AdversaryConn(peer.Protos, peer.Chain, 2, true)
	l, err := NewInterceptingListener(&InterceptingListenerConfiguration{Context: ctx, Storage: st, BaseListener: vfOneConn(peer)})
	if err != nil {
		panic(err)
	}
	conn, err := l.Accept()
	vf.Assert("honest-node-is-accepted", err == nil)
	if err != nil {
		return
	}
	pc := conn.(*Conn)
	vf.Assert("authenticated", strings.HasPrefix(pc.ConnectionState().NegotiatedProtocol, nodeenrollment.AuthenticateNodeNextProtoV1Prefix))
	want := vfWithoutPreference(offered)
	got := pc.ClientNextProtos()
	vf.Assert("reported-list-is-the-offered-list-minus-the-preference-entry", vfSameList(got, want))
	// the returned list is a copy
	if len(got) > 0 {
		got[0] = "overwritten-by-the-application"
		vf.Assert("returned-list-is-a-copy", vfSameList(pc.ClientNextProtos(), want))
	}
	if hasState {
		vf.Assert("state-is-what-the-node-supplied", vfs.StateValue(pc.ClientState()) == stateVal)
	} else {
		vf.Assert("no-state-when-none-supplied", pc.ClientState() == nil)
	}
	vf.Reach("end")
}

// C16 (state only after verification): a hand-built request whose client state is signed by the node's key, by
// another key, or not at all; a connection - and with it the state - comes out only for the genuine signature.
func VerifC16ConnForged() {
	ctx := context.Background()
	t0 := vf.Now()
	vf.ShortScenario(t0, time.Second)
	st, creds := vfC16Server(ctx, t0)
	nonce := []byte("a-fresh-connection-nonce-32-byte")
	stateVal := vf.String("state-value", 8)
	state, err := proto.Marshal(vfs.State(stateVal))
	if err != nil {
		panic(err)
	}
	stateSigKey := vf.Int("state-signature-key", -1, 3)
	req := &types.GenerateServerCertificatesRequest{CertificatePublicKeyPkix: vf.Pkix(2), Nonce: nonce, NonceSignature: vf.SigBy(2, nonce),
		ClientState: state}
	if !vf.Bool("state-signature-missing") {
		req.ClientStateSignature = vf.SigBy(stateSigKey, state)
	} else {
		stateSigKey = -2
	}
	// the node may have a second, newer record (another key) under the same node ID and be looked up by that ID:
	// the state must be verified against the record that authenticated the request, not against whichever comes first
	var storage nodeenrollment.Storage = st
	if vf.Bool("node-has-a-newer-record-and-is-looked-up-by-node-id") {
		id2, _ := nodeenrollment.KeyIdFromPkix(vf.Pkix(2))
		rec, lerr := types.LoadNodeInformation(ctx, st, id2)
		if lerr != nil {
			panic(lerr)
		}
		rec.NodeId = "n1"
		if err := rec.Store(ctx, st); err != nil {
			panic(err)
		}
		id3, _ := nodeenrollment.KeyIdFromPkix(vf.Pkix(3))
		if err := (&types.NodeInformation{Id: id3, NodeId: "n1", CertificatePublicKeyPkix: vf.Pkix(3), CertificatePublicKeyType: types.KEYTYPE_ED25519}).Store(ctx, st); err != nil {
			panic(err)
		}
		n := len(st.Entries) // newest first
		st.Entries = append([]vfs.Entry{st.Entries[n-1]}, st.Entries[:n-1]...)
		req.NodeId = "n1"
		storage = &vfs.NodeIdStorage{Storage: st}
	}
	reqBytes, _ := proto.Marshal(req)
	protos, _ := nodetls.BreakIntoNextProtos(nodeenrollment.AuthenticateNodeNextProtoV1Prefix, base64.RawStdEncoding.EncodeToString(reqBytes))
	peer := &vfs.Peer{Protos: protos, Chain: [][]byte{creds.CertificateBundles[0].CertificateDer}, HoldsLeafKey: true}
	peer.Conn = vf.AdversaryConn(peer.Protos, peer.Chain, 2, true)
	l, err := NewInterceptingListener(&InterceptingListenerConfiguration{Context: ctx, Storage: storage, BaseListener: vfOneConn(peer)})
	if err != nil {
		panic(err)
	}
	conn, err := l.Accept()
	if err == nil {
		vf.Reach("accepted")
		vf.Assert("state-delivered-only-with-a-genuine-signature", stateSigKey == 2)
		vf.Assert("state-is-what-was-signed", vfs.StateValue(conn.(*Conn).ClientState()) == stateVal)
	} else {
		vf.Reach("rejected")
		vf.Assert("genuinely-signed-state-is-accepted", stateSigKey != 2)
	}
}
