//go:build verif

package protocol

import (
	"context"
	"crypto/x509"
	"crypto/x509/pkix"
	"encoding/base64"
	"math/big"
	"net"
	"strings"
	"time"

	"github.com/hashicorp/nodeenrollment"
	nodetls "github.com/hashicorp/nodeenrollment/tls"
	"github.com/hashicorp/nodeenrollment/types"
	"github.com/hashicorp/nodeenrollment/zzverif/vf"
	"github.com/hashicorp/nodeenrollment/zzverif/vfs"
	"google.golang.org/protobuf/proto"
	"google.golang.org/protobuf/types/known/timestamppb"
)

func init() {
	VfHarnesses["VerifC02Auth"] = VerifC02Auth
	VfHarnesses["VerifC02Fetch"] = VerifC02Fetch
}

// vfNodeLeaf is the client certificate authorizeNodeCommon issues: for universe key `key`, under the CA template.
func vfNodeLeaf(ca *x509.Certificate, key, signer int, eku x509.ExtKeyUsage) []byte {
	id, _ := nodeenrollment.KeyIdFromPkix(vf.Pkix(key))
	return vfs.MkCert(&x509.Certificate{SubjectKeyId: vf.Pkix(key), Subject: pkix.Name{CommonName: id}, DNSNames: []string{id},
		ExtKeyUsage: []x509.ExtKeyUsage{eku}, SerialNumber: big.NewInt(2), NotBefore: ca.NotBefore, NotAfter: ca.NotAfter}, ca, key, signer)
}

func vfOneConn(c net.Conn) *vfs.Script { return &vfs.Script{Conns: []net.Conn{c}, Errs: []error{nil}} }

// C02 (authentication): a peer that comes out of Accept with the node-authentication protocol negotiated
//   - holds the private key of the certificate it presented,
//   - presented a certificate issued by a root this server stores and that is valid now,
//   - for exactly the certificate key named in its request,
//   - and signed the handshake nonce with the key of a node record PRESENT in storage: the record of that
//     certificate key, or - when the storage supports lookup by node ID and the request names one - a record
//     under that node ID,
//
// whatever the other request fields (skip_verification, common_name, node_id) say.
func VerifC02Auth() {
	ctx := context.Background()
	inner := &vfs.Storage{}
	t0 := vf.Now()
	vf.ShortScenario(t0, time.Second)
	// the server's roots: current = universe key 0, next = universe key 1; current may have expired
	curExpired := vf.Bool("current-root-expired")
	curNA := t0.Add(time.Duration(vf.IfInt(curExpired, int(-time.Minute), int(time.Hour))))
	cur, curTmpl := vfs.MkRoot("current", 0, t0.Add(-2*time.Hour), curNA)
	next, _ := vfs.MkRoot("next", 1, t0.Add(-time.Hour), t0.Add(2*time.Hour))
	if err := (&types.RootCertificates{Id: nodeenrollment.RootsMessageId, Current: cur, Next: next}).Store(ctx, inner); err != nil {
		panic(err)
	}
	// two enrolled nodes: A = key 2 under node ID "n1", B = key 3 under node ID "n2"; either may have been removed
	presentA, presentB := vf.Bool("record-A-present"), vf.Bool("record-B-present")
	for _, k := range []int{2, 3} {
		id, _ := nodeenrollment.KeyIdFromPkix(vf.Pkix(k))
		nid, gone := "n1", !presentA
		if k == 3 {
			nid, gone = "n2", !presentB
		}
		if err := (&types.NodeInformation{Id: id, CertificatePublicKeyPkix: vf.Pkix(k), NodeId: nid}).Store(ctx, inner); err != nil {
			panic(err)
		}
		inner.SetGone(vfs.KindNode, id, gone)
	}
	loader := vf.Bool("storage-supports-node-id-lookup")
	var st nodeenrollment.Storage = inner
	if loader {
		st = &vfs.NodeIdStorage{Storage: inner}
	}

	// the peer's certificate: for key leafKey, issued by this server's current root / self-issued under the
	// root's name / issued by a foreign CA; it holds the matching private key or not
	leafKey := vf.Int("leaf-key", 2, 3)
	reqKey := vf.Int("request-key", 2, 3) // the certificate key the request will name
	issuer := vf.Int("leaf-issuer", 0, 3) // 0: current root, 1: self-issued under the root's name, 2: a foreign CA, 3: the next root
	signer := vf.IfInt(issuer == 0, 0, vf.IfInt(issuer == 1, leafKey, vf.IfInt(issuer == 2, 5, 1)))
	// the server verifies the leaf against its own pool only; certificates are public, so any peer can append the
	// genuine certificate of the key it names in its request behind its own leaf
	chain := [][]byte{vfNodeLeaf(curTmpl, leafKey, signer, x509.ExtKeyUsageClientAuth), vfNodeLeaf(curTmpl, reqKey, 0, x509.ExtKeyUsageClientAuth)}
	holds := vf.Bool("holds-leaf-key")

	// the ALPN-carried request: every field is the peer's choice
	nonce := vf.Bytes("nonce", 32)
	vf.Assume(len(nonce) == 32)
	sigKey := vf.Int("nonce-signature-key", -1, 4) // -1: bytes that are no signature at all
	nsig := vf.SigBy(sigKey, nonce)
	hintNo := vf.Int("node-id-hint", 0, 3)
	hint := vf.IfStr(hintNo == 0, "", vf.IfStr(hintNo == 1, "n1", vf.IfStr(hintNo == 2, "n2", "no-such-node")))
	req := &types.GenerateServerCertificatesRequest{CertificatePublicKeyPkix: vf.Pkix(reqKey), Nonce: nonce, NonceSignature: nsig,
		SkipVerification: vf.Bool("skip-verification-on-the-wire"), NodeId: hint,
		CommonName: vf.IfStr(vf.Bool("common-name-on-the-wire"), nodeenrollment.CommonDnsName, "")}
	reqBytes, err := proto.Marshal(req)
	if err != nil {
		panic(err)
	}
	protos, err := nodetls.BreakIntoNextProtos(nodeenrollment.AuthenticateNodeNextProtoV1Prefix, base64.RawStdEncoding.EncodeToString(reqBytes))
	if err != nil {
		panic(err)
	}
	prefId, _ := nodeenrollment.KeyIdFromPkix(vf.Pkix(vf.Int("preferred-root", 0, 1)))
	protos = append(protos, nodeenrollment.CertificatePreferenceV1Prefix+prefId)
	peer := &vfs.Peer{Protos: protos, Chain: chain, HoldsLeafKey: holds}
	peer.Conn = vf.AdversaryConn(peer.Protos, peer.Chain, leafKey, peer.HoldsLeafKey)

	l, err := NewInterceptingListener(&InterceptingListenerConfiguration{Context: ctx, Storage: st, BaseListener: vfOneConn(peer)})
	if err != nil {
		panic(err)
	}
	conn, err := l.Accept()
	vf.Assume(vf.TimeLE(vf.Now(), t0.Add(time.Second)))

	// which stored record may vouch for this request
	byNodeId := vf.And(loader, hintNo != 0)
	scopeA := vf.Or(vf.And(vf.Not(byNodeId), reqKey == 2), vf.And(byNodeId, hintNo == 1))
	scopeB := vf.Or(vf.And(vf.Not(byNodeId), reqKey == 3), vf.And(byNodeId, hintNo == 2))
	vouched := vf.Or(vf.And(vf.And(presentA, scopeA), sigKey == 2), vf.And(vf.And(presentB, scopeB), sigKey == 3))
	// the leaf carries the current root's window in every variant, so it is expired exactly when that root is
	rootOK := vf.And(vf.Or(issuer == 0, issuer == 3), vf.Not(curExpired))
	legit := vf.And(vf.And(holds, rootOK), vf.And(leafKey == reqKey, vouched))
	authenticated := false
	if err == nil {
		authenticated = strings.HasPrefix(conn.(*Conn).ConnectionState().NegotiatedProtocol, nodeenrollment.AuthenticateNodeNextProtoV1Prefix)
	}
	if authenticated {
		vf.Reach("authenticated")
		vf.Assert("peer-holds-the-certificate-key", holds)
		vf.Assert("certificate-issued-by-a-currently-valid-root-of-this-server", rootOK)
		vf.Assert("certificate-is-for-the-key-named-in-the-request", leafKey == reqKey)
		vf.Assert("nonce-signed-by-a-present-record-in-scope", vouched)
	} else {
		vf.Reach("rejected")
		vf.Assert("rejected-peer-gets-no-connection", err != nil)
		vf.Assert("registered-key-holder-is-authenticated", vf.Not(legit))
	}
}

// C02 (fetch): a credential-fetch handshake never yields a connection, wherever the fetch entries sit in the
// peer's ALPN list and whether or not the request was authorized; it never creates a node record either.
func VerifC02Fetch() {
	ctx := context.Background()
	st := &vfs.Storage{}
	t0 := vf.Now()
	vf.ShortScenario(t0, time.Second)
	cur, _ := vfs.StoreRoots(ctx, st, t0)
	_ = cur
	key := 2
	nonce := vf.Bytes("registration-nonce", 32)
	vf.Assume(len(nonce) == 32)
	encPub := vf.X25519Pub(0)
	authorized := vf.Bool("node-authorized")
	if authorized {
		id, _ := nodeenrollment.KeyIdFromPkix(vf.Pkix(key))
		rec := &types.NodeInformation{Id: id, CertificatePublicKeyPkix: vf.Pkix(key), CertificatePublicKeyType: types.KEYTYPE_ED25519,
			EncryptionPublicKeyBytes: encPub, EncryptionPublicKeyType: types.KEYTYPE_X25519, RegistrationNonce: nonce,
			ServerEncryptionPrivateKeyBytes: vf.X25519Priv(9), ServerEncryptionPrivateKeyType: types.KEYTYPE_X25519}
		if err := rec.Store(ctx, st); err != nil {
			panic(err)
		}
	}
	info := &types.FetchNodeCredentialsInfo{CertificatePublicKeyPkix: vf.Pkix(key), CertificatePublicKeyType: types.KEYTYPE_ED25519,
		Nonce: nonce, EncryptionPublicKeyBytes: encPub, EncryptionPublicKeyType: types.KEYTYPE_X25519,
		NotBefore: timestamppb.New(t0.Add(-time.Hour)), NotAfter: timestamppb.New(t0.Add(time.Hour))}
	bundle, err := proto.Marshal(info)
	if err != nil {
		panic(err)
	}
	reqBytes, err := proto.Marshal(&types.FetchNodeCredentialsRequest{Bundle: bundle, BundleSignature: vf.SigBy(key, bundle)})
	if err != nil {
		panic(err)
	}
	protos, err := nodetls.BreakIntoNextProtos(nodeenrollment.FetchNodeCredsNextProtoV1Prefix, base64.RawStdEncoding.EncodeToString(reqBytes))
	if err != nil {
		panic(err)
	}
	extra := vf.String("extra-protocol", 12)
	vf.Assume(vf.And(len(extra) >= 1, vf.Not(strings.HasPrefix(extra, "v1-nodee-"))))
	switch vf.Int("extra-protocol-position", 0, 2) {
	case 1:
		protos = append([]string{extra}, protos...)
	case 2:
		protos = append(protos, extra)
	}
	// a throw-away self-signed certificate: the node has no credentials yet
	tmpl := vfs.RootTemplate(6, t0.Add(-time.Hour), t0.Add(time.Hour))
	peer := &vfs.Peer{Protos: protos, Chain: [][]byte{vfs.MkCert(tmpl, tmpl, 6, 6)}, HoldsLeafKey: true}
	peer.Conn = vf.AdversaryConn(peer.Protos, peer.Chain, 6, true)
	before := st.Count(vfs.KindNode)
	l, err := NewInterceptingListener(&InterceptingListenerConfiguration{Context: ctx, Storage: st, BaseListener: vfOneConn(peer)})
	if err != nil {
		panic(err)
	}
	conn, err := l.Accept()
	vf.Assume(vf.TimeLE(vf.Now(), t0.Add(time.Second)))
	vf.Reach("accept-returned")
	vf.Assert("fetch-handshake-never-yields-a-connection", vf.And(err != nil, conn == nil))
	vf.Assert("fetch-handshake-creates-no-record", st.Count(vfs.KindNode) == before)
}

func init() { VfHarnesses["VerifC02FetchAndAuth"] = VerifC02FetchAndAuth }

// C02 (one hello, both requests): a peer without credentials sends, in one ClientHello, its own credential-fetch
// request and an authentication request replayed from the clear-text ALPN values of a registered node (a valid
// nonce signature it did not make), in either order, and presents a throw-away self-signed certificate whose key
// it holds. Whatever is waived for the fetch branch is waived for that branch only: the peer never comes out of
// Accept with a connection, let alone an authenticated one.
func VerifC02FetchAndAuth() {
	ctx := context.Background()
	st := &vfs.Storage{}
	t0 := vf.Now()
	vf.ShortScenario(t0, time.Second)
	vfs.StoreRoots(ctx, st, t0)
	// the registered node whose request is replayed
	vid, _ := nodeenrollment.KeyIdFromPkix(vf.Pkix(3))
	if err := (&types.NodeInformation{Id: vid, CertificatePublicKeyPkix: vf.Pkix(3), CertificatePublicKeyType: types.KEYTYPE_ED25519}).Store(ctx, st); err != nil {
		panic(err)
	}
	cnonce := []byte("a-recorded-connection-nonce-32-b")
	areq, err := proto.Marshal(&types.GenerateServerCertificatesRequest{CertificatePublicKeyPkix: vf.Pkix(3), Nonce: cnonce, NonceSignature: vf.SigBy(3, cnonce)})
	if err != nil {
		panic(err)
	}
	authProtos, err := nodetls.BreakIntoNextProtos(nodeenrollment.AuthenticateNodeNextProtoV1Prefix, base64.RawStdEncoding.EncodeToString(areq))
	if err != nil {
		panic(err)
	}
	// the peer's own fetch request (key 6), authorized or not
	nonce := []byte("the-peers-registration-nonce-32b")
	if vf.Bool("fetch-request-authorized") {
		id, _ := nodeenrollment.KeyIdFromPkix(vf.Pkix(6))
		rec := &types.NodeInformation{Id: id, CertificatePublicKeyPkix: vf.Pkix(6), CertificatePublicKeyType: types.KEYTYPE_ED25519,
			EncryptionPublicKeyBytes: vf.X25519Pub(0), EncryptionPublicKeyType: types.KEYTYPE_X25519, RegistrationNonce: nonce,
			ServerEncryptionPrivateKeyBytes: vf.X25519Priv(9), ServerEncryptionPrivateKeyType: types.KEYTYPE_X25519}
		if err := rec.Store(ctx, st); err != nil {
			panic(err)
		}
	}
	info := &types.FetchNodeCredentialsInfo{CertificatePublicKeyPkix: vf.Pkix(6), CertificatePublicKeyType: types.KEYTYPE_ED25519,
		Nonce: nonce, EncryptionPublicKeyBytes: vf.X25519Pub(0), EncryptionPublicKeyType: types.KEYTYPE_X25519,
		NotBefore: timestamppb.New(t0.Add(-time.Hour)), NotAfter: timestamppb.New(t0.Add(time.Hour))}
	bundle, err := proto.Marshal(info)
	if err != nil {
		panic(err)
	}
	freq, err := proto.Marshal(&types.FetchNodeCredentialsRequest{Bundle: bundle, BundleSignature: vf.SigBy(6, bundle)})
	if err != nil {
		panic(err)
	}
	fetchProtos, err := nodetls.BreakIntoNextProtos(nodeenrollment.FetchNodeCredsNextProtoV1Prefix, base64.RawStdEncoding.EncodeToString(freq))
	if err != nil {
		panic(err)
	}
	protos := append(append([]string{}, fetchProtos...), authProtos...)
	if vf.Bool("authentication-request-first") {
		protos = append(append([]string{}, authProtos...), fetchProtos...)
	}
	tmpl := vfs.RootTemplate(6, t0.Add(-time.Hour), t0.Add(time.Hour))
	// the certificate names whatever helps: the replayed node's key ID as common name and DNS name
	tmpl.Subject.CommonName, tmpl.DNSNames = vid, []string{vid}
	peer := &vfs.Peer{Protos: protos, Chain: [][]byte{vfs.MkCert(tmpl, tmpl, 6, 6)}, HoldsLeafKey: true}
	peer.Conn = vf.AdversaryConn(peer.Protos, peer.Chain, 6, true)
	before := st.Count(vfs.KindNode)
	l, err := NewInterceptingListener(&InterceptingListenerConfiguration{Context: ctx, Storage: st, BaseListener: vfOneConn(peer)})
	if err != nil {
		panic(err)
	}
	conn, err := l.Accept()
	vf.Assume(vf.TimeLE(vf.Now(), t0.Add(time.Second)))
	vf.Reach("accept-returned")
	vf.Assert("peer-without-credentials-gets-no-connection", vf.And(err != nil, conn == nil))
	vf.Assert("no-record-created", st.Count(vfs.KindNode) == before)
}
