//go:build verif

package protocol

import (
	"context"
	"crypto/rand"
	"crypto/x509"
	"crypto/x509/pkix"
	"encoding/base64"
	"math/big"
	"net"
	"strings"
	"time"

	"github.com/hashicorp/nodeenrollment"
	nodetls "github.com/hashicorp/nodeenrollment/tls"
	"github.com/hashicorp/nodeenrollment/types"
	"github.com/hashicorp/nodeenrollment/zzverif/vf"
	"google.golang.org/protobuf/proto"
	"google.golang.org/protobuf/types/known/timestamppb"
)

func init() { VfHarnesses["VerifC02Auth"] = VerifC02Auth }

// ---- marshal-based storage, like the real back ends ----
type vfEntry struct {
	kind int
	id   string
	data []byte
}
type vfStorage struct{ entries []vfEntry }

func vfKind(m proto.Message) int {
	switch m.(type) {
	case *types.NodeInformation:
		return 1
	case *types.RootCertificates:
		return 2
	case *types.NodeCredentials:
		return 3
	case *types.ServerLedActivationToken:
		return 4
	}
	return 0
}
func (s *vfStorage) Store(ctx context.Context, m nodeenrollment.MessageWithId) error {
	b, err := proto.Marshal(m)
	if err != nil {
		return err
	}
	k := vfKind(m)
	for i := range s.entries {
		if s.entries[i].kind == k && s.entries[i].id == m.GetId() {
			s.entries[i].data = b
			return nil
		}
	}
	s.entries = append(s.entries, vfEntry{k, m.GetId(), b})
	return nil
}
func (s *vfStorage) Load(ctx context.Context, m nodeenrollment.MessageWithId) error {
	k := vfKind(m)
	for _, e := range s.entries {
		if e.kind == k && e.id == m.GetId() {
			return proto.Unmarshal(e.data, m)
		}
	}
	return nodeenrollment.ErrNotFound
}
func (s *vfStorage) Remove(ctx context.Context, m nodeenrollment.MessageWithId) error { return nil }
func (s *vfStorage) List(ctx context.Context, m proto.Message) ([]string, error)     { return nil, nil }

// ---- the peer as seen by the handshake contract model ----
type vfPeer struct {
	net.Conn
	Protos       []string
	Chain        [][]byte
	HoldsLeafKey bool
}
type vfOneShot struct {
	conn net.Conn
	done bool
}

func (l *vfOneShot) Accept() (net.Conn, error) {
	if l.done {
		return nil, net.ErrClosed
	}
	l.done = true
	return l.conn, nil
}
func (l *vfOneShot) Close() error   { return nil }
func (l *vfOneShot) Addr() net.Addr { return nil }

func vfMkCert(tmpl, parent *x509.Certificate, subjectKey, signerKey int) []byte {
	priv, _ := x509.ParsePKCS8PrivateKey(vf.Pkcs8(signerKey))
	pub, _ := x509.ParsePKIXPublicKey(vf.Pkix(subjectKey))
	der, err := x509.CreateCertificate(rand.Reader, tmpl, parent, pub, priv)
	if err != nil {
		panic(err)
	}
	return der
}

// C02 (core): a peer that presents the node certificate this server issued is accepted as
// authenticated only if it holds the key, the node record is still in storage, and the
// handshake nonce is signed by that record's key -- whatever the request fields say.
func VerifC02Auth() {
	ctx := context.Background()
	st := &vfStorage{}
	t0 := vf.Now()
	rootTmpl := func(k int) *x509.Certificate {
		return &x509.Certificate{SubjectKeyId: vf.Pkix(k), Subject: pkix.Name{CommonName: "root"}, SerialNumber: big.NewInt(1),
			NotBefore: t0.Add(-time.Hour), NotAfter: t0.Add(time.Hour), IsCA: true, BasicConstraintsValid: true}
	}
	mkRoot := func(k int, id string) (*types.RootCertificate, []byte, *x509.Certificate) {
		tmpl := rootTmpl(k)
		der := vfMkCert(tmpl, tmpl, k, k)
		return &types.RootCertificate{Id: id, PublicKeyPkix: vf.Pkix(k), PrivateKeyPkcs8: vf.Pkcs8(k), PrivateKeyType: types.KEYTYPE_ED25519,
			CertificateDer: der, NotBefore: timestamppb.New(tmpl.NotBefore), NotAfter: timestamppb.New(tmpl.NotAfter)}, der, tmpl
	}
	cur, curDer, curTmpl := mkRoot(0, "current")
	next, _, _ := mkRoot(1, "next")
	if err := (&types.RootCertificates{Id: nodeenrollment.RootsMessageId, Current: cur, Next: next}).Store(ctx, st); err != nil {
		panic(err)
	}

	// the node (universe key 2) and the certificate authorizeNodeCommon issued to it under the current root
	nodePkix := vf.Pkix(2)
	nodeKeyId, _ := nodeenrollment.KeyIdFromPkix(nodePkix)
	leafDer := vfMkCert(&x509.Certificate{SubjectKeyId: nodePkix, Subject: pkix.Name{CommonName: nodeKeyId}, DNSNames: []string{nodeKeyId},
		ExtKeyUsage: []x509.ExtKeyUsage{x509.ExtKeyUsageClientAuth}, SerialNumber: big.NewInt(2),
		NotBefore: curTmpl.NotBefore, NotAfter: curTmpl.NotAfter}, curTmpl, 2, 0)
	recordPresent := vf.Bool("record-present")
	if recordPresent {
		if err := (&types.NodeInformation{Id: nodeKeyId, CertificatePublicKeyPkix: nodePkix}).Store(ctx, st); err != nil {
			panic(err)
		}
	}

	// the peer's ALPN-carried request: every field that travels on the wire is the peer's choice
	nonce := vf.Bytes("nonce", 32)
	vf.Assume(len(nonce) == 32)
	nsig := vf.SigBy(vf.Int("noncesigkey", -1, 2), nonce)
	req := &types.GenerateServerCertificatesRequest{CertificatePublicKeyPkix: nodePkix, Nonce: nonce, NonceSignature: nsig,
		SkipVerification: vf.Bool("skip-verification-on-the-wire")}
	reqBytes, _ := proto.Marshal(req)
	protos, _ := nodetls.BreakIntoNextProtos(nodeenrollment.AuthenticateNodeNextProtoV1Prefix, base64.RawStdEncoding.EncodeToString(reqBytes))
	curKeyId, _ := nodeenrollment.KeyIdFromPkix(vf.Pkix(0))
	protos = append(protos, nodeenrollment.CertificatePreferenceV1Prefix+curKeyId)
	peer := &vfPeer{Protos: protos, Chain: [][]byte{leafDer, curDer}, HoldsLeafKey: vf.Bool("holds-leaf-key")}
	peer.Conn = vf.AdversaryConn(peer.Protos, peer.Chain, 2, peer.HoldsLeafKey)

	l, err := NewInterceptingListener(&InterceptingListenerConfiguration{Context: ctx, Storage: st, BaseListener: &vfOneShot{conn: peer}})
	vf.Assert("listener-built", err == nil)
	conn, err := l.Accept()
	if err == nil {
		pc := conn.(*Conn)
		if strings.HasPrefix(pc.ConnectionState().NegotiatedProtocol, nodeenrollment.AuthenticateNodeNextProtoV1Prefix) {
			vf.Reach("authenticated")
			vf.Assert("peer-holds-the-certificate-key", peer.HoldsLeafKey)
			vf.Assert("node-record-present", recordPresent)
			vf.Assert("nonce-signed-by-the-record-key", vf.SigOK(2, nonce, nsig))
		}
	} else {
		vf.Reach("rejected")
	}
}
