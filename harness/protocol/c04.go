//go:build verif

package protocol

import (
	"errors"
	"context"
	"crypto/ed25519"
	"crypto/x509"
	"time"

	"github.com/hashicorp/nodeenrollment"
	"github.com/hashicorp/nodeenrollment/registration"
	"github.com/hashicorp/nodeenrollment/rotation"
	nodetls "github.com/hashicorp/nodeenrollment/tls"
	"github.com/hashicorp/nodeenrollment/types"
	"github.com/hashicorp/nodeenrollment/zzverif/vf"
	"github.com/hashicorp/nodeenrollment/zzverif/vfs"
	"google.golang.org/protobuf/proto"
)

func init() {
	VfHarnesses["VerifC04OperatorFlow"] = func() { verifC04Flow(0) }
	VfHarnesses["VerifC04TokenFlow"] = func() { verifC04Flow(1) }
	VfHarnesses["VerifC04WrapperFlow"] = func() { verifC04Flow(2) }
	VfHarnesses["VerifC04RewrappedFlow"] = func() { verifC04Flow(3) }
	VfHarnesses["VerifC04NodeRefuses"] = VerifC04NodeRefuses
	VfHarnesses["VerifC04ShortRandom"] = VerifC04ShortRandom
}

func VerifC04OperatorFlow()  { verifC04Flow(0) }
func VerifC04TokenFlow()     { verifC04Flow(1) }
func VerifC04WrapperFlow()   { verifC04Flow(2) }
func VerifC04RewrappedFlow() { verifC04Flow(3) }

// C04 (honest flows): roots minted by the real RotateRootCertificates, then one honest node enrolled by the
// library's own code through the given flow, with or without a storage wrapper on either side and with or without
// application state. Every honest step succeeds; the response is signed by the current root, carries one chain
// per root, every certificate is a non-CA client-auth leaf for the node's key named by its key ID and valid
// exactly as long as its issuing root, the stored record equals what built the response, and the stored node
// credentials yield client TLS configurations.
func verifC04Flow(flow int) {
	ctx := context.Background()
	st, nodeSt := &vfs.Storage{}, &vfs.Storage{}
	t0 := vf.Now()
	vfDeadline = t0.Add(time.Second)
	vf.ShortScenario(t0, time.Second)
	var sopts, nopts []nodeenrollment.Option
	if vf.Bool("server-storage-wrapper") {
		sopts = append(sopts, nodeenrollment.WithStorageWrapper(vfC04Wrapper("server-storage", 5)))
	}
	if vf.Bool("node-storage-wrapper") {
		nopts = append(nopts, nodeenrollment.WithStorageWrapper(vfC04Wrapper("node-storage", 6)))
	}
	withState := vf.Bool("application-state")
	// the server's back end may refuse to overwrite a node record (store-once semantics, storage/testing)
	st.Once = vf.Bool("store-once-back-end")
	// the roots may have been minted under another certificate lifetime than the one in force when the node is
	// authorized: a leaf never outlives its own issuing root
	rootLife := vf.Dur("root-certificate-lifetime", int64(2*time.Hour), int64(30*24*time.Hour))
	roots, err := rotation.RotateRootCertificates(ctx, st, append(append([]nodeenrollment.Option{}, sopts...), nodeenrollment.WithCertificateLifetime(rootLife))...)
	vfOK("rotate-roots", err)

	var creds *types.NodeCredentials
	var req *types.FetchNodeCredentialsRequest
	var resp *types.FetchNodeCredentialsResponse
	fopts := append([]nodeenrollment.Option{}, sopts...)
	hopts := append([]nodeenrollment.Option{}, nopts...)
	switch flow {
	case 0: // operator authorizes the node's request, then the node fetches
		creds, err = types.NewNodeCredentials(ctx, nodeSt, nopts...)
		vfOK("new-node-credentials", err)
		req, err = creds.CreateFetchNodeCredentialsRequest(ctx)
		vfOK("create-fetch-request", err)
		aopts := append([]nodeenrollment.Option{}, sopts...)
		if withState {
			aopts = append(aopts, nodeenrollment.WithState(vfs.State("app-state")))
		}
		_, err = registration.AuthorizeNode(ctx, st, req, aopts...)
		vfOK("authorize", err)
	case 1: // activation token
		topts := append([]nodeenrollment.Option{}, sopts...)
		if withState {
			topts = append(topts, nodeenrollment.WithState(vfs.State("app-state")))
		}
		_, token, terr := registration.CreateServerLedActivationToken(ctx, st, &types.ServerLedRegistrationRequest{}, topts...)
		vfOK("create-token", terr)
		creds, err = types.NewNodeCredentials(ctx, nodeSt, append(append([]nodeenrollment.Option{}, nopts...), nodeenrollment.WithActivationToken(token))...)
		vfOK("new-node-credentials", err)
		req, err = creds.CreateFetchNodeCredentialsRequest(ctx, nodeenrollment.WithActivationToken(token))
		vfOK("create-fetch-request", err)
		hopts = append(hopts, nodeenrollment.WithActivationToken(token))
	default: // registration wrapper (2), or the same request re-sealed by an already registered node (3)
		regWrapper := vfC04Wrapper("registration", 7)
		creds, err = types.NewNodeCredentials(ctx, nodeSt, nopts...)
		vfOK("new-node-credentials", err)
		req, err = creds.CreateFetchNodeCredentialsRequest(ctx, nodeenrollment.WithRegistrationWrapper(regWrapper))
		vfOK("create-fetch-request", err)
		if withState {
			fopts = append(fopts, nodeenrollment.WithState(vfs.State("app-state")))
		}
		if flow == 2 {
			fopts = append(fopts, nodeenrollment.WithRegistrationWrapper(regWrapper))
		} else {
			// the intermediary: an honestly enrolled node that can open the wrapped info and re-seals it for the server
			mid := vfEnroll(ctx, st, sopts...)
			info := new(types.FetchNodeCredentialsInfo)
			vfOK("decode-bundle", proto.Unmarshal(req.Bundle, info))
			flowInfo, derr := registration.DecryptWrappedRegistrationInfo(ctx, info, nodeenrollment.WithRegistrationWrapper(regWrapper))
			vfOK("intermediary-opens-wrapped-info", derr)
			req.RewrappedWrappingRegistrationFlowInfo, err = nodeenrollment.EncryptMessage(ctx, flowInfo, mid)
			vfOK("intermediary-reseals", err)
			req.RewrappingKeyId, err = nodeenrollment.KeyIdFromPkix(mid.CertificatePublicKeyPkix)
			vfOK("intermediary-key-id", err)
		}
	}
	resp, err = registration.FetchNodeCredentials(ctx, st, req, fopts...)
	vfOK("fetch", err)
	vf.Assert("response-carries-credentials", len(resp.EncryptedNodeCredentials) > 0)
	if flow >= 2 && vf.Bool("node-fetches-a-second-time-with-the-same-request") {
		// in the wrapper flows a repeated fetch goes through authorization again; on a store-once back end that hits
		// the duplicate-record branch. The node uses the later response; the server's record must still be there.
		resp, err = registration.FetchNodeCredentials(ctx, st, req, fopts...)
		vfOK("second-fetch", err)
		vf.Assert("second-response-carries-credentials", len(resp.EncryptedNodeCredentials) > 0)
	}
	// signed by the server's current root
	curPub, perr := x509.ParsePKIXPublicKey(roots.Current.PublicKeyPkix)
	vfOK("parse-current-root-key", perr)
	vf.Assert("response-signed-by-the-current-root", ed25519.Verify(curPub.(ed25519.PublicKey), resp.EncryptedNodeCredentials, resp.EncryptedNodeCredentialsSignature))
	_, err = creds.HandleFetchNodeCredentialsResponse(ctx, nodeSt, resp, hopts...)
	vfOK("handle-response", err)

	vf.Assert("one-chain-per-root", len(creds.CertificateBundles) == 2)
	keyId, _ := nodeenrollment.KeyIdFromPkix(creds.CertificatePublicKeyPkix)
	rec, err := types.LoadNodeInformation(ctx, st, keyId, sopts...)
	vfOK("load-record", err)
	vf.Assert("record-has-the-same-chains", len(rec.CertificateBundles) == 2)
	if withState {
		vf.Assert("record-carries-the-application-state", vfs.StateValue(rec.State) == "app-state")
	}
	for i, root := range []*types.RootCertificate{roots.Current, roots.Next} {
		b := creds.CertificateBundles[i]
		vf.Assert("record-equals-response", vf.And(vf.EqBytes(b.CertificateDer, rec.CertificateBundles[i].CertificateDer),
			vf.EqBytes(b.CaCertificateDer, rec.CertificateBundles[i].CaCertificateDer)))
		vf.Assert("ca-is-the-servers-root", vf.EqBytes(b.CaCertificateDer, root.CertificateDer))
		leaf, err := x509.ParseCertificate(b.CertificateDer)
		vfOK("parse-leaf", err)
		ca, err := x509.ParseCertificate(b.CaCertificateDer)
		vfOK("parse-ca", err)
		vf.Assert("leaf-is-not-a-ca", !leaf.IsCA)
		vf.Assert("leaf-is-client-auth-only", len(leaf.ExtKeyUsage) == 1 && leaf.ExtKeyUsage[0] == x509.ExtKeyUsageClientAuth)
		vf.Assert("leaf-names-the-node-key", vf.And(vf.EqBytes(leaf.SubjectKeyId, creds.CertificatePublicKeyPkix), vf.And(leaf.Subject.CommonName == keyId, len(leaf.DNSNames) >= 1 && leaf.DNSNames[0] == keyId)))
		vf.Assert("leaf-lives-exactly-as-long-as-its-root", vf.And(vf.TimeEq(leaf.NotBefore, ca.NotBefore), vf.TimeEq(leaf.NotAfter, ca.NotAfter)))
		pk, err := x509.MarshalPKIXPublicKey(leaf.PublicKey)
		vfOK("marshal-leaf-key", err)
		vf.Assert("leaf-certifies-the-node-key", vf.EqBytes(pk, creds.CertificatePublicKeyPkix))
	}
	// the credentials the node stored are usable
	loaded, err := types.LoadNodeCredentials(ctx, nodeSt, nodeenrollment.CurrentId, nopts...)
	vfOK("load-node-credentials", err)
	cfgs, err := nodetls.ClientConfigs(ctx, loaded)
	vfOK("client-configs", err)
	vf.Assert("at-least-one-working-client-config", len(cfgs) >= 1)
	for _, c := range cfgs {
		vf.Assert("client-config-has-a-certificate-callback", c.GetClientCertificate != nil)
	}
	vf.Reach("end")
}

var vfDeadline time.Time

// vfOK: every honest step must succeed, provided the clock stayed inside the scenario budget.
func vfOK(step string, err error) {
	vf.Assume(vf.TimeLE(vf.Now(), vfDeadline))
	vf.Assert("honest-step-succeeds:"+step, err == nil)
	vf.Assume(err == nil)
}

// vfEnroll runs the library's own honest node-led enrollment end to end.
func vfEnroll(ctx context.Context, server *vfs.Storage, sopts ...nodeenrollment.Option) *types.NodeCredentials {
	nodeSt := &vfs.Storage{}
	creds, err := types.NewNodeCredentials(ctx, nodeSt)
	vfOK("new-node-credentials", err)
	req, err := creds.CreateFetchNodeCredentialsRequest(ctx)
	vfOK("create-fetch-request", err)
	_, err = registration.AuthorizeNode(ctx, server, req, sopts...)
	vfOK("authorize", err)
	resp, err := registration.FetchNodeCredentials(ctx, server, req, sopts...)
	vfOK("fetch", err)
	_, err = creds.HandleFetchNodeCredentialsResponse(ctx, nodeSt, resp)
	vfOK("handle-response", err)
	return creds
}

func vfC04Wrapper(id string, k int) *vfWrapperT { return newVfWrapper(id, k) }

// C04 (node side): the node accepts a response only if it decrypts under the key pair of its own request and
// echoes exactly its nonce - any other nonce, of the same or of a different length, is refused.
func VerifC04NodeRefuses() {
	ctx := context.Background()
	nodeSt := &vfs.Storage{}
	nonce := vf.Bytes("node-nonce", 32)
	vf.Assume(len(nonce) == 32)
	node := &types.NodeCredentials{Id: string(nodeenrollment.CurrentId), CertificatePublicKeyPkix: vf.Pkix(2), CertificatePrivateKeyPkcs8: vf.Pkcs8(2), CertificatePrivateKeyType: types.KEYTYPE_ED25519,
		EncryptionPrivateKeyBytes: vf.X25519Priv(0), EncryptionPrivateKeyType: types.KEYTYPE_X25519, RegistrationNonce: nonce}
	// the server side of the key agreement the response was built with: for this node's key pair, or for another
	serverView := vf.Int("server-encrypted-to-node-key", 0, 1)
	certView := vf.Int("server-used-cert-key", 2, 3)
	rec := &types.NodeInformation{CertificatePublicKeyPkix: vf.Pkix(certView), EncryptionPublicKeyBytes: vf.X25519Pub(serverView), EncryptionPublicKeyType: types.KEYTYPE_X25519,
		ServerEncryptionPrivateKeyBytes: vf.X25519Priv(9), ServerEncryptionPrivateKeyType: types.KEYTYPE_X25519}
	echoed := nonce
	if !vf.Bool("echoes-the-nodes-nonce") {
		echoed = vf.Bytes("echoed-nonce", 40)
		vf.Assume(vf.Not(vf.EqBytes(echoed, nonce)))
	}
	inner := &types.NodeCredentials{ServerEncryptionPublicKeyBytes: vf.X25519Pub(9), ServerEncryptionPublicKeyType: types.KEYTYPE_X25519, RegistrationNonce: echoed,
		CertificateBundles: []*types.CertificateBundle{{CertificateDer: []byte("leaf-1")}, {CertificateDer: []byte("leaf-2")}}}
	// the server key named in the clear on the response: the one the payload was encrypted with, a substitute, or a
	// degenerate one
	outerKey := vf.Int("response-names-server-key", 8, 10)
	resp := &types.FetchNodeCredentialsResponse{ServerEncryptionPublicKeyType: types.KEYTYPE_X25519}
	var err error
	if outerKey == 10 {
		// a degenerate key: the all-zero point (low order), whose "shared secret" with any private key is all zeros and
		// therefore known to everybody; the payload is sealed under that secret and the node's public key ID.
		// crypto/ecdh refuses such points.
		resp.ServerEncryptionPublicKeyBytes = []byte("\x00\x00\x00\x00\x00\x00\x00\x00\x00\x00\x00\x00\x00\x00\x00\x00\x00\x00\x00\x00\x00\x00\x00\x00\x00\x00\x00\x00\x00\x00\x00\x00")
		forgedId, _ := nodeenrollment.KeyIdFromPkix(vf.Pkix(2))
		if resp.EncryptedNodeCredentials, err = nodeenrollment.EncryptMessage(ctx, inner, vfZeroSecret{id: forgedId}); err != nil {
			panic(err)
		}
	} else {
		resp.ServerEncryptionPublicKeyBytes = vf.X25519Pub(outerKey)
		if resp.EncryptedNodeCredentials, err = nodeenrollment.EncryptMessage(ctx, inner, rec); err != nil {
			panic(err)
		}
	}
	out, err := node.HandleFetchNodeCredentialsResponse(ctx, nodeSt, resp)
	legit := vf.And(vf.And(vf.And(serverView == 0, certView == 2), outerKey == 9), vf.EqBytes(echoed, nonce))
	if err == nil {
		vf.Reach("accepted")
		vf.Assert("accepted-only-if-for-this-key-and-nonce", legit)
		vf.Assert("bundles-taken-from-the-response", len(out.CertificateBundles) == 2)
		vf.Assert("credentials-stored", nodeSt.Count(vfs.KindCreds) == 1)
	} else {
		vf.Reach("refused")
		vf.Assert("own-response-is-accepted", vf.Not(legit))
		vf.Assert("refused-response-stores-nothing", nodeSt.Count(vfs.KindCreds) == 0)
		// a refused response leaves nothing behind in the credentials value: the genuine response, handled next by
		// the same value, completes the enrollment
		good, gerr := nodeenrollment.EncryptMessage(ctx, &types.NodeCredentials{ServerEncryptionPublicKeyBytes: vf.X25519Pub(9), ServerEncryptionPublicKeyType: types.KEYTYPE_X25519,
			RegistrationNonce: nonce, CertificateBundles: inner.CertificateBundles},
			&types.NodeInformation{CertificatePublicKeyPkix: vf.Pkix(2), EncryptionPublicKeyBytes: vf.X25519Pub(0), EncryptionPublicKeyType: types.KEYTYPE_X25519,
				ServerEncryptionPrivateKeyBytes: vf.X25519Priv(9), ServerEncryptionPrivateKeyType: types.KEYTYPE_X25519})
		if gerr != nil {
			panic(gerr)
		}
		_, herr := node.HandleFetchNodeCredentialsResponse(ctx, nodeSt, &types.FetchNodeCredentialsResponse{EncryptedNodeCredentials: good,
			ServerEncryptionPublicKeyBytes: vf.X25519Pub(9), ServerEncryptionPublicKeyType: types.KEYTYPE_X25519})
		vf.Assert("genuine-response-accepted-after-a-refused-one", herr == nil)
	}
}

// vfZeroSecret is a key producer whose shared secret is all zeros (what a low-order point yields).
type vfZeroSecret struct{ id string }

func (k vfZeroSecret) X25519EncryptionKey() (string, []byte, error) {
	return k.id, []byte("\x00\x00\x00\x00\x00\x00\x00\x00\x00\x00\x00\x00\x00\x00\x00\x00\x00\x00\x00\x00\x00\x00\x00\x00\x00\x00\x00\x00\x00\x00\x00\x00"), nil
}
func (k vfZeroSecret) PreviousX25519EncryptionKey() (string, []byte, error) {
	return "", nil, errors.New("no previous key")
}

// vfShortReader hands out at most n random bytes per call and reports how many it delivered.
type vfShortReader struct{ n int }

func (r *vfShortReader) Read(p []byte) (int, error) {
	n := r.n
	if n > len(p) {
		n = len(p)
	}
	vf.FillRandom(p, n)
	return n, nil
}

// C04 (key generation): the server's half of the encryption key agreement is made from a full read of the random
// source; a source that delivers fewer bytes (which io.Reader allows) must make authorization fail rather than
// yield a predictable key that third parties could use to open the response.
func VerifC04ShortRandom() {
	ctx := context.Background()
	st := &vfs.Storage{}
	t0 := vf.Now()
	vfs.StoreRoots(ctx, st, t0)
	creds, err := types.NewNodeCredentials(ctx, &vfs.Storage{})
	if err != nil {
		panic(err)
	}
	req, err := creds.CreateFetchNodeCredentialsRequest(ctx)
	if err != nil {
		panic(err)
	}
	rd := &vfShortReader{n: vf.Int("bytes-per-read", 0, 64)}
	_, err = registration.AuthorizeNode(ctx, st, req, nodeenrollment.WithRandomReader(rd))
	vf.Assume(vf.TimeLE(vf.Now(), t0.Add(time.Second)))
	if err == nil {
		vf.Reach("authorized")
		vf.Assert("authorized-only-with-a-full-random-read", rd.n >= 32)
	} else {
		vf.Reach("refused")
		vf.Assert("full-reads-authorize", rd.n < 32)
		vf.Assert("refusal-stores-nothing", st.Count(vfs.KindNode) == 0)
	}
}
