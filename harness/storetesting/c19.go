//go:build verif

package testing

import (
	"context"

	"github.com/hashicorp/nodeenrollment/zzverif/vf"
	"github.com/hashicorp/nodeenrollment/zzverif/vfs"
)

var VfHarnesses = map[string]func(){"VerifC19StoreOnceStep": VerifC19StoreOnceStep}

// C19 for the store-once test back end: the same step; a second node record for an id is refused.
func VerifC19StoreOnceStep() {
	ctx := context.Background()
	st, err := New(ctx)
	vf.Assert("storage-created", err == nil)
	if err != nil {
		return
	}
	vfs.MapStep(ctx, st, true)
}
