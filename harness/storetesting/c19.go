//go:build verif

package testing

import (
	"context"

	"github.com/hashicorp/nodeenrollment/zzverif/vf"
	"github.com/hashicorp/nodeenrollment/zzverif/vfs"
)

var VfHarnesses = map[string]func(){"VerifC19StoreOnceStep": VerifC19StoreOnceStep, "VerifC19StoreOnceStep3": VerifC19StoreOnceStep3}

// C19 for the store-once test back end: the same step; a second node record for an id is refused.
var vfPre = 2

// VerifC19StoreOnceStep3 is the same step from a three-entry pre-state (thorough tier).
func VerifC19StoreOnceStep3() { vfPre = 3; VerifC19StoreOnceStep() }

func VerifC19StoreOnceStep() {
	ctx := context.Background()
	st, err := New(ctx)
	vf.Assert("storage-created", err == nil)
	if err != nil {
		return
	}
	vfs.MapStep(ctx, st, true, vfPre)
}
