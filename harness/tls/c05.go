//go:build verif

package tls

import (
	"context"
	"time"

	"github.com/hashicorp/nodeenrollment"
	"github.com/hashicorp/nodeenrollment/types"
	"github.com/hashicorp/nodeenrollment/zzverif/vf"
	"github.com/hashicorp/nodeenrollment/zzverif/vfs"
	"google.golang.org/protobuf/proto"
)

// vfSigChoice is one of the adversary's signatures over msg: by a universe key, or raw bytes of any length.
func vfSigChoice(label string, msg []byte) (sig []byte, key int) {
	if vf.Bool(label + "-is-raw-bytes") {
		return vf.Bytes(label+"-raw", 80), -1
	}
	key = vf.Int(label+"-key", 0, 3)
	return vf.SigBy(key, msg), key
}

// C05: the verification gate of GenerateServerCertificates for nrec stored records (arbitrary universe keys,
// arbitrary grouping under node IDs "n1"/"n2", in this order), either lookup path, and nonce / client-state
// signatures chosen independently.
func verifC05(nrec int, loader bool) {
	ctx := context.Background()
	t0 := vf.Now()
	vf.ShortScenario(t0, time.Second)
	inner := &vfs.Storage{}
	vfs.StoreRoots(ctx, inner, t0)
	keys, groups := make([]int, nrec), make([]string, nrec)
	for i := 0; i < nrec; i++ {
		keys[i] = vf.Int("reckey", 0, 2)
		for j := 0; j < i; j++ {
			vf.Assume(keys[j] != keys[i]) // one record per key (records are stored under their key ID)
		}
		groups[i] = "n1"
		if vf.Bool("record-under-other-node-id") {
			groups[i] = "n2"
		}
		pk := vf.Pkix(keys[i])
		id, _ := nodeenrollment.KeyIdFromPkix(pk)
		if err := (&types.NodeInformation{Id: id, CertificatePublicKeyPkix: pk, NodeId: groups[i]}).Store(ctx, inner); err != nil {
			panic(err)
		}
	}
	nonce := vf.Bytes("nonce", 40)
	nsig, nkey := vfSigChoice("noncesig", nonce)
	reqKey := vf.Int("reqkey", 0, 3)
	// the common name is a peer-controlled field on the authentication path: arbitrary, possibly empty
	req := &types.GenerateServerCertificatesRequest{CertificatePublicKeyPkix: vf.Pkix(reqKey), Nonce: nonce, NonceSignature: nsig, CommonName: vf.String("common-name", 12)}
	var state []byte
	stateVal := vf.String("state-value", 8)
	skey := -1
	if vf.Bool("has-client-state") {
		var err error
		if state, err = proto.Marshal(vfs.State(stateVal)); err != nil {
			panic(err)
		}
		req.ClientState = state
		req.ClientStateSignature, skey = vfSigChoice("statesig", state)
	}
	nodeId := ""
	switch vf.Int("node-id-hint", 0, 2) {
	case 1:
		nodeId = "n1"
	case 2:
		nodeId = "unknown-node"
	}
	req.NodeId = nodeId
	var st nodeenrollment.Storage = inner
	if loader {
		st = &vfs.NodeIdStorage{Storage: inner, EmptyAsSet: !vf.Bool("storage-reports-no-records-as-not-found")}
	}
	resp, err := GenerateServerCertificates(ctx, st, req)

	// the records the lookup is allowed to use
	byNodeId := loader && nodeId != ""
	verified := false
	for i := 0; i < nrec; i++ {
		inScope := keys[i] == reqKey
		if byNodeId {
			inScope = groups[i] == nodeId
		}
		ok := vf.And(len(nonce) > 0, keys[i] == nkey)
		if len(state) > 0 {
			ok = vf.And(ok, keys[i] == skey)
		}
		verified = vf.Or(verified, vf.And(inScope, ok))
	}
	if err == nil {
		vf.Reach("certificates-generated")
		vf.Assert("verified-by-a-stored-record-in-scope", verified)
		vf.Assert("one-certificate-per-root", resp != nil && len(resp.CertificateBundles) == 2)
		if resp != nil && len(state) > 0 {
			vf.Assert("client-state-is-the-verified-one", vfs.StateValue(resp.ClientState) == stateVal)
		}
	} else {
		vf.Reach("rejected")
		vf.Assert("valid-signature-by-any-record-in-scope-succeeds", vf.Not(verified))
		vf.Assert("no-certificates-and-no-state-without-success", resp == nil)
	}
}

func VerifC05KeyIdPath1()  { verifC05(1, false) }
func VerifC05KeyIdPath2()  { verifC05(2, false) }
func VerifC05NodeIdPath0() { verifC05(0, true) }
func VerifC05NodeIdPath1() { verifC05(1, true) }
func VerifC05NodeIdPath2() { verifC05(2, true) }
func VerifC05NodeIdPath3() { verifC05(3, true) }

// C13, server-certificate generation over a faulty storage: a failed call hands out neither certificates nor client
// state; without a fault a correctly signed request of a registered node succeeds.
func VerifC13GenerateFaults() {
	ctx := context.Background()
	inner := &vfs.Storage{}
	t0 := vf.Now()
	vf.ShortScenario(t0, time.Second)
	vfs.StoreRoots(ctx, inner, t0)
	id, _ := nodeenrollment.KeyIdFromPkix(vf.Pkix(2))
	if err := (&types.NodeInformation{Id: id, CertificatePublicKeyPkix: vf.Pkix(2)}).Store(ctx, inner); err != nil {
		panic(err)
	}
	nonce := []byte("a-fresh-connection-nonce-32-byte")
	const maxOps = 4
	f := &vfs.Faulty{Inner: inner, FailAt: vf.Int("fail-at", -1, maxOps), ErrKind: vf.Int("error-kind", 0, 2)}
	snap := inner.Snapshot()
	resp, err := GenerateServerCertificates(ctx, f, &types.GenerateServerCertificatesRequest{CertificatePublicKeyPkix: vf.Pkix(2), Nonce: nonce, NonceSignature: vf.SigBy(2, nonce)})
	vf.Bound("op-count-within-bound", f.N <= maxOps)
	if f.Hit {
		vf.Reach("fault-hit")
	}
	if err == nil {
		vf.Reach("generated")
		vf.Assert("one-certificate-per-root", len(resp.CertificateBundles) == 2)
	} else {
		vf.Reach("failed")
		vf.Assert("failure-hands-out-nothing", resp == nil)
	}
	vf.Assert("no-fault-means-success", vf.Implies(!f.Hit, err == nil))
	vf.Assert("generation-changes-nothing-in-storage", inner.SameAs(snap))
}
