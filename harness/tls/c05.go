//go:build verif

package tls

import (
	"context"
	"errors"

	"github.com/hashicorp/nodeenrollment"
	"github.com/hashicorp/nodeenrollment/types"
	"github.com/hashicorp/nodeenrollment/zzverif/vf"
	"google.golang.org/protobuf/proto"
)

var errGate = errors.New("gate reached")

// vfStore is a minimal Storage; loading roots returns errGate so that the
// harness can observe "verification gate passed" without running the
// certificate-minting tail (guidance: end paths after the check they guard).
type vfStore struct{ nodes []*types.NodeInformation }

func (s *vfStore) Store(ctx context.Context, m nodeenrollment.MessageWithId) error  { return nil }
func (s *vfStore) Remove(ctx context.Context, m nodeenrollment.MessageWithId) error { return nil }
func (s *vfStore) List(ctx context.Context, m proto.Message) ([]string, error)     { return nil, nil }
func (s *vfStore) Load(ctx context.Context, m nodeenrollment.MessageWithId) error {
	switch t := m.(type) {
	case *types.NodeInformation:
		for _, n := range s.nodes {
			if n.Id == t.Id {
				t.CertificatePublicKeyPkix = n.CertificatePublicKeyPkix
				t.NodeId = n.NodeId
				return nil
			}
		}
		return nodeenrollment.ErrNotFound
	case *types.RootCertificates:
		return errGate
	}
	return nodeenrollment.ErrNotFound
}

type vfNodeStore struct{ *vfStore }

func (s *vfNodeStore) LoadByNodeId(ctx context.Context, m nodeenrollment.MessageWithNodeId) error {
	set := m.(*types.NodeInformationSet)
	var out []*types.NodeInformation
	for _, n := range s.nodes {
		if n.NodeId == set.NodeId {
			out = append(out, n)
		}
	}
	if len(out) == 0 {
		return nodeenrollment.ErrNotFound
	}
	set.Nodes = out
	return nil
}

func verifC05(nrec int, loader bool, nodeId string) {
	ctx := context.Background()
	base := &vfStore{}
	var keys []int
	for i := 0; i < nrec; i++ {
		k := vf.Int("reckey", 0, 2)
		pk := vf.Pkix(k)
		id, _ := nodeenrollment.KeyIdFromPkix(pk)
		base.nodes = append(base.nodes, &types.NodeInformation{Id: id, CertificatePublicKeyPkix: pk, NodeId: "n1"})
		keys = append(keys, k)
	}
	nonce := vf.Bytes("nonce", 40)
	nsig := vf.SigBy(vf.Int("nsigkey", -1, 2), nonce)
	req := &types.GenerateServerCertificatesRequest{
		CertificatePublicKeyPkix: vf.Pkix(vf.Int("reqkey", 0, 2)),
		Nonce:                    nonce,
		NonceSignature:           nsig,
		NodeId:                   nodeId,
	}
	var st nodeenrollment.Storage = base
	if loader {
		st = &vfNodeStore{base}
	}
	_, err := GenerateServerCertificates(ctx, st, req)
	if errors.Is(err, errGate) {
		vf.Reach("gate-passed")
		ok := false
		for i := 0; i < nrec; i++ {
			ok = vf.Or(ok, vf.SigOK(keys[i], nonce, nsig))
		}
		vf.Assert("verified-by-some-stored-record", ok)
	} else {
		vf.Reach("rejected")
	}
}

func VerifC05KeyIdPath()  { verifC05(2, false, "") }
func VerifC05NodeIdPath() { verifC05(2, true, "n1") }
