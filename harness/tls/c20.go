//go:build verif

package tls

import "github.com/hashicorp/nodeenrollment/zzverif/vf"

const vfPrefix = "v1-nodee-fetch-node-creds-"

// whole-function round trip, symbolic content and length (1..4 chunks incl. boundaries)
func VerifC20Whole() {
	v := vf.String("payload", 3*214+1)
	vf.Assume(len(v) >= 1)
	chunks, err := BreakIntoNextProtos(vfPrefix, v)
	vf.Assert("break-ok", err == nil)
	for _, c := range chunks {
		vf.Assert("entry<=255", len(c) <= 255)
	}
	out, err := CombineFromNextProtos(vfPrefix, chunks)
	vf.Assert("combine-ok", err == nil)
	vf.Assert("roundtrip", out == v)
	vf.Reach("end")
}

// arbitrary (malformed) entries never crash the decoder
func VerifC20Malformed() {
	a := vf.String("e0", 40)
	b := vf.String("e1", 40)
	_, _ = CombineFromNextProtos(vfPrefix, []string{a, b})
	vf.Reach("end")
}

// whole-function round trip for payloads needing exactly n chunks, n symbolic in a window
func verifC20Chunks(lo, hi int) {
	n := vf.Int("chunks", lo, hi)
	v := vf.String("payload", hi*214)
	vf.Assume(vf.And(len(v) > (n-1)*214, len(v) <= n*214))
	chunks, err := BreakIntoNextProtos(vfPrefix, v)
	vf.Assert("break-ok", err == nil)
	out, err := CombineFromNextProtos(vfPrefix, chunks)
	vf.Assert("combine-ok", err == nil)
	vf.Assert("roundtrip", out == v)
	vf.Reach("end")
}
func VerifC20Chunks20()  { verifC20Chunks(18, 20) }
func VerifC20Chunks101() { verifC20Chunks(99, 101) }

// Per-chunk inductive lemma: from an ARBITRARY loop state (chunk index count in 0..cMax, offset i), the entry the
// encoder's loop body appends is decoded by the real decoder to exactly the chunk body, and fits in 255 bytes.
func verifC20Lemma(cMax int) {
	v := vf.String("payload", 60000)
	vf.CutLoop("BreakIntoNextProtos", "for.loop", func(count, i int, ret []string) {
		entry := ret[len(ret)-1]
		end := i + 214
		if end > len(v) {
			end = len(v)
		}
		chunk := v[i:end]
		vf.Assert("entry-has-prefix-and-fits", vf.And(len(entry) <= 255, len(entry) > len(vfPrefix)))
		out, err := CombineFromNextProtos(vfPrefix, []string{"unrelated-proto", entry})
		vf.Assert("decoder-recovers-the-chunk", vf.And(err == nil, out == chunk))
		vf.Reach("checked")
	}, "count", 0, cMax, "i", 0, 60000)
	_, _ = BreakIntoNextProtos(vfPrefix, v)
}
func VerifC20Lemma99()  { verifC20Lemma(99) }
func VerifC20Lemma267() { verifC20Lemma(267) }
