//go:build verif

package tls

import (
	"strings"

	"github.com/hashicorp/nodeenrollment/zzverif/vf"
)

const vfPrefix = "v1-nodee-fetch-node-creds-"

// whole-function round trip, symbolic content and length (1..4 chunks incl. boundaries)
func VerifC20Whole() {
	v := vf.String("payload", 3*214+1)
	vf.Assume(len(v) >= 1)
	chunks, err := BreakIntoNextProtos(vfPrefix, v)
	vf.Assert("break-ok", err == nil)
	for _, c := range chunks {
		vf.Assert("entry<=255", len(c) <= 255)
	}
	out, err := CombineFromNextProtos(vfPrefix, chunks)
	vf.Assert("combine-ok", err == nil)
	vf.Assert("roundtrip", out == v)
	vf.Reach("end")
}

// round trip with unrelated protocol names interleaved at arbitrary positions of the entry list (before, between and
// after the chunks), for both request prefixes and 1..3 chunks
func verifC20Interleaved(prefix string) {
	v := vf.String("payload", 2*(240-len(prefix))+1)
	vf.Assume(len(v) >= 1)
	chunks, err := BreakIntoNextProtos(prefix, v)
	vf.Assert("break-ok", err == nil)
	f1, f2 := vf.String("foreign", 24), vf.String("foreign", 24)
	vf.Assume(vf.And(vf.Not(strings.HasPrefix(f1, prefix)), vf.Not(strings.HasPrefix(f2, prefix))))
	p1, p2 := vf.Int("position", 0, 3), vf.Int("position", 0, 3)
	vf.Assume(vf.And(p1 <= len(chunks), p2 <= len(chunks)))
	var list []string
	for i := 0; i <= len(chunks); i++ {
		if i == p1 {
			list = append(list, f1)
		}
		if i == p2 {
			list = append(list, f2)
		}
		if i < len(chunks) {
			vf.Assert("entry-has-prefix-and-fits", vf.And(strings.HasPrefix(chunks[i], prefix), len(chunks[i]) <= 255))
			list = append(list, chunks[i])
		}
	}
	out, err := CombineFromNextProtos(prefix, list)
	vf.Assert("combine-ok", err == nil)
	vf.Assert("roundtrip-with-foreign-entries", out == v)
	vf.Reach("end")
}
func VerifC20InterleavedFetch() { verifC20Interleaved(vfPrefix) }
func VerifC20InterleavedAuth()  { verifC20Interleaved("v1-nodee-authenticate-node-") }

// arbitrary (malformed) entries never crash the decoder
func VerifC20Malformed() {
	a := vf.String("e0", 40)
	b := vf.String("e1", 40)
	_, _ = CombineFromNextProtos(vfPrefix, []string{a, b})
	vf.Reach("end")
}

// whole-function round trip for payloads needing exactly n chunks, n symbolic in a window
func verifC20Chunks(lo, hi int) {
	n := vf.Int("chunks", lo, hi)
	v := vf.String("payload", hi*214)
	vf.Assume(vf.And(len(v) > (n-1)*214, len(v) <= n*214))
	chunks, err := BreakIntoNextProtos(vfPrefix, v)
	vf.Assert("break-ok", err == nil)
	out, err := CombineFromNextProtos(vfPrefix, chunks)
	vf.Assert("combine-ok", err == nil)
	vf.Assert("roundtrip", out == v)
	vf.Reach("end")
}
func VerifC20Chunks20()  { verifC20Chunks(18, 20) }
func VerifC20Chunks101() { verifC20Chunks(99, 101) }

// Per-chunk inductive lemma: from an ARBITRARY loop state (chunk index count in 0..cMax, offset i), the entry the
// encoder's loop body appends is decoded by the real decoder to exactly the chunk body, and fits in 255 bytes.
func verifC20Lemma(cMax int) {
	v := vf.String("payload", 60000)
	check := func(count, i int, entry string) {
		end := i + 214
		if end > len(v) {
			end = len(v)
		}
		chunk := v[i:end]
		vf.Assert("entry-has-prefix-and-fits", vf.And(len(entry) <= 255, len(entry) > len(vfPrefix)))
		out, err := CombineFromNextProtos(vfPrefix, []string{"unrelated-proto", entry})
		vf.Assert("decoder-recovers-the-chunk", vf.And(err == nil, out == chunk))
		vf.Reach("checked")
	}
	if vf.Native() {
		// native twin of the loop cut: reach the same loop state honestly (count full chunks before this one)
		count, i := vf.Int("loop-count", 0, cMax), vf.Int("loop-i", 0, 60000)
		if i >= len(v) {
			return // the model's loop state lies past the payload: the loop body does not run
		}
		end := i + 214
		if end > len(v) {
			end = len(v)
		}
		entries, err := BreakIntoNextProtos(vfPrefix, strings.Repeat("x", count*214)+v[i:end])
		if err != nil || len(entries) != count+1 {
			panic("native loop-cut twin: unexpected chunking")
		}
		check(count, i, entries[count])
		return
	}
	vf.CutLoop("BreakIntoNextProtos", "for.loop", func(count, i int, ret []string) { check(count, i, ret[len(ret)-1]) }, "count", 0, cMax, "i", 0, 60000)
	_, _ = BreakIntoNextProtos(vfPrefix, v)
}
func VerifC20Lemma99()  { verifC20Lemma(99) }
func VerifC20Lemma267() { verifC20Lemma(267) }

// 12..13 chunks: the first payloads whose chunk numbers include "11" and "12" (two-digit numbers made of the digits
// that also occur in the prefixes)
func VerifC20Chunks13() { verifC20Chunks(12, 13) }
