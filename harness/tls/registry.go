//go:build verif

package tls

var VfHarnesses = map[string]func(){
	"VerifC05KeyIdPath1":       VerifC05KeyIdPath1,
	"VerifC05KeyIdPath2":       VerifC05KeyIdPath2,
	"VerifC05NodeIdPath0":      VerifC05NodeIdPath0,
	"VerifC05NodeIdPath1":      VerifC05NodeIdPath1,
	"VerifC05NodeIdPath2":      VerifC05NodeIdPath2,
	"VerifC05NodeIdPath3":      VerifC05NodeIdPath3,
	"VerifC13GenerateFaults":   VerifC13GenerateFaults,
	"VerifC20Whole":            VerifC20Whole,
	"VerifC20InterleavedFetch": VerifC20InterleavedFetch,
	"VerifC20InterleavedAuth":  VerifC20InterleavedAuth,
	"VerifC20Malformed":        VerifC20Malformed,
	"VerifC20Chunks20":         VerifC20Chunks20,
	"VerifC20Chunks13":         VerifC20Chunks13,
	"VerifC20Lemma99":          VerifC20Lemma99,
	"VerifC20Lemma267":         VerifC20Lemma267,
	"VerifC20Chunks101":        VerifC20Chunks101,
}
