//go:build verif

package tls

var VfHarnesses = map[string]func(){
	"VerifC05KeyIdPath":  VerifC05KeyIdPath,
	"VerifC05NodeIdPath": VerifC05NodeIdPath,
	"VerifC20Whole":      VerifC20Whole,
	"VerifC20Malformed":  VerifC20Malformed,
	"VerifC20Chunks20":   VerifC20Chunks20,
	"VerifC20Lemma99":    VerifC20Lemma99,
	"VerifC20Lemma267":   VerifC20Lemma267,
	"VerifC20Chunks101":  VerifC20Chunks101,
}
