//go:build verif

// Package vfs holds the harness-side environment shared by the dual-mode harnesses: a marshal-based
// Storage like the real back ends (loaded messages never alias stored ones), a NodeIdLoader variant,
// a fault injector, and builders for roots and certificates. It is ordinary Go: the engine executes it
// symbolically, the native replay compiles it.
package vfs

import (
	"context"
	"crypto/rand"
	"crypto/x509"
	"crypto/x509/pkix"
	"errors"
	"math/big"
	"net"
	"time"

	"github.com/hashicorp/nodeenrollment"
	"github.com/hashicorp/nodeenrollment/types"
	"github.com/hashicorp/nodeenrollment/zzverif/vf"
	"google.golang.org/protobuf/proto"
	"google.golang.org/protobuf/types/known/structpb"
	"google.golang.org/protobuf/types/known/timestamppb"
)

const (
	KindNode  = 1
	KindRoots = 2
	KindCreds = 3
	KindToken = 4
)

type Entry struct {
	Kind int
	Id   string
	Data []byte
	Gone bool // a removed entry kept as a tombstone: lets a harness make "present or removed" a symbolic fact without forking up front
}

// Storage keeps proto.Marshal(msg) per (kind, id), like the real back ends.
type Storage struct {
	Entries []Entry
	Stores  int // number of successful Store calls (write log length)
	Removes int
	Once    bool // store-once semantics for node records: a second Store of the same id reports a duplicate record
	// StrictRemove: removing an entry that is not there is reported as the library's not-found error, as the
	// library asks storage implementations to do where they can (registration/register_server_led.go).
	StrictRemove bool
}

func Kind(m proto.Message) int {
	switch m.(type) {
	case *types.NodeInformation:
		return KindNode
	case *types.RootCertificates:
		return KindRoots
	case *types.NodeCredentials:
		return KindCreds
	case *types.ServerLedActivationToken:
		return KindToken
	}
	return 0
}

func (s *Storage) Store(ctx context.Context, m nodeenrollment.MessageWithId) error {
	b, err := proto.Marshal(m)
	if err != nil {
		return err
	}
	k := Kind(m)
	for i := range s.Entries {
		if s.Entries[i].Kind == k && s.Entries[i].Id == m.GetId() {
			if s.Once && k == KindNode && !s.Entries[i].Gone {
				return new(types.DuplicateRecordError)
			}
			s.Stores++
			s.Entries[i].Data, s.Entries[i].Gone = b, false
			return nil
		}
	}
	s.Stores++
	s.Entries = append(s.Entries, Entry{Kind: k, Id: m.GetId(), Data: b})
	return nil
}

func (s *Storage) Load(ctx context.Context, m nodeenrollment.MessageWithId) error {
	k := Kind(m)
	for _, e := range s.Entries {
		if e.Kind == k && e.Id == m.GetId() && !e.Gone {
			return proto.Unmarshal(e.Data, m)
		}
	}
	return nodeenrollment.ErrNotFound
}

func (s *Storage) Remove(ctx context.Context, m nodeenrollment.MessageWithId) error {
	k := Kind(m)
	for i := range s.Entries {
		if s.Entries[i].Kind == k && s.Entries[i].Id == m.GetId() {
			gone := s.Entries[i].Gone
			s.Entries = append(s.Entries[:i], s.Entries[i+1:]...)
			if gone && s.StrictRemove {
				return nodeenrollment.ErrNotFound
			}
			s.Removes++
			return nil
		}
	}
	if s.StrictRemove {
		return nodeenrollment.ErrNotFound
	}
	return nil
}

// Racing forwards to Inner and lets a competing actor act once, right after the first successful Load of a
// message of kind Kind: AfterLoad runs at that instant (e.g. the same token being used up by another request,
// or revoked by the operator). It models one interleaving point of two calls on the same storage.
type Racing struct {
	Inner     nodeenrollment.Storage
	Kind      int
	AfterLoad func()
	Fired     bool
}

func (r *Racing) Store(ctx context.Context, m nodeenrollment.MessageWithId) error {
	return r.Inner.Store(ctx, m)
}
func (r *Racing) Load(ctx context.Context, m nodeenrollment.MessageWithId) error {
	err := r.Inner.Load(ctx, m)
	if err == nil && !r.Fired && Kind(m) == r.Kind {
		r.Fired = true
		r.AfterLoad()
	}
	return err
}
func (r *Racing) Remove(ctx context.Context, m nodeenrollment.MessageWithId) error {
	return r.Inner.Remove(ctx, m)
}
func (r *Racing) List(ctx context.Context, m proto.Message) ([]string, error) {
	return r.Inner.List(ctx, m)
}

func (s *Storage) List(ctx context.Context, m proto.Message) ([]string, error) {
	k := Kind(m)
	var ids []string
	for _, e := range s.Entries {
		if e.Kind == k && !e.Gone {
			ids = append(ids, e.Id)
		}
	}
	return ids, nil
}

// Count returns the number of stored messages of a kind.
func (s *Storage) Count(kind int) int {
	n := 0
	for _, e := range s.Entries {
		if e.Kind == kind && !e.Gone {
			n++
		}
	}
	return n
}

// Has reports whether (kind, id) is stored.
func (s *Storage) Has(kind int, id string) bool {
	for _, e := range s.Entries {
		if e.Kind == kind && e.Id == id && !e.Gone {
			return true
		}
	}
	return false
}

// SetGone marks (kind, id) as removed (gone=true) or present.
func (s *Storage) SetGone(kind int, id string, gone bool) {
	for i := range s.Entries {
		if s.Entries[i].Kind == kind && s.Entries[i].Id == id {
			s.Entries[i].Gone = gone
		}
	}
}

// Tamper overwrites the stored bytes of (kind, id): an adversary (or operator) editing the back end directly.
func (s *Storage) Tamper(kind int, id string, data []byte) {
	for i := range s.Entries {
		if s.Entries[i].Kind == kind && s.Entries[i].Id == id {
			s.Entries[i].Data = data
		}
	}
}

// Get returns the stored bytes of (kind, id), nil when absent.
func (s *Storage) Get(kind int, id string) []byte {
	for _, e := range s.Entries {
		if e.Kind == kind && e.Id == id {
			return e.Data
		}
	}
	return nil
}

// Snapshot copies the entry list (the byte values are immutable in the harness).
func (s *Storage) Snapshot() []Entry { return append([]Entry{}, s.Entries...) }

// SameAs reports whether the storage holds exactly the snapshot's entries (same order, ids and bytes).
func (s *Storage) SameAs(snap []Entry) bool {
	if len(s.Entries) != len(snap) {
		return false
	}
	ok := true
	for i := range snap {
		ok = vf.And(ok, vf.And(s.Entries[i].Kind == snap[i].Kind, vf.And(s.Entries[i].Id == snap[i].Id, vf.EqBytes(s.Entries[i].Data, snap[i].Data))))
	}
	return ok
}

// KindSameAs: the entries of one kind are exactly those of the snapshot (ids and bytes, in order).
func (s *Storage) KindSameAs(kind int, snap []Entry) bool {
	var a, b []Entry
	for _, e := range s.Entries {
		if e.Kind == kind {
			a = append(a, e)
		}
	}
	for _, e := range snap {
		if e.Kind == kind {
			b = append(b, e)
		}
	}
	if len(a) != len(b) {
		return false
	}
	ok := true
	for i := range a {
		ok = vf.And(ok, vf.And(a[i].Id == b[i].Id, vf.EqBytes(a[i].Data, b[i].Data)))
	}
	return ok
}

// NodeIdStorage additionally supports lookup by node ID (nodeenrollment.NodeIdLoader).
type NodeIdStorage struct {
	*Storage
	EmptyAsSet bool // report "no records under this node ID" as an empty set with a nil error instead of ErrNotFound
}

func (s *NodeIdStorage) LoadByNodeId(ctx context.Context, m nodeenrollment.MessageWithNodeId) error {
	set, ok := m.(*types.NodeInformationSet)
	if !ok {
		return errors.New("vfs: unsupported message for LoadByNodeId")
	}
	var out []*types.NodeInformation
	for _, e := range s.Entries {
		if e.Kind != KindNode || e.Gone {
			continue
		}
		n := new(types.NodeInformation)
		if err := proto.Unmarshal(e.Data, n); err != nil {
			return err
		}
		if n.NodeId == set.NodeId {
			out = append(out, n)
		}
	}
	if len(out) == 0 && !s.EmptyAsSet {
		return nodeenrollment.ErrNotFound
	}
	set.Nodes = out
	return nil
}

// Faulty fails exactly the FailAt-th storage operation (0-based; negative: never) with an error of the
// given kind, without applying it; every other operation goes to Inner.
type Faulty struct {
	Inner   nodeenrollment.Storage
	N       int
	FailAt  int
	ErrKind int // 0 generic, 1 ErrNotFound, 2 context.Canceled
	Hit     bool
}

func (f *Faulty) fault() error {
	i := f.N
	f.N++
	if i == f.FailAt {
		f.Hit = true
		switch f.ErrKind {
		case 0:
			return errors.New("injected storage fault")
		case 1:
			return nodeenrollment.ErrNotFound
		default:
			return context.Canceled
		}
	}
	return nil
}
func (f *Faulty) Store(ctx context.Context, m nodeenrollment.MessageWithId) error {
	if err := f.fault(); err != nil {
		return err
	}
	return f.Inner.Store(ctx, m)
}
func (f *Faulty) Load(ctx context.Context, m nodeenrollment.MessageWithId) error {
	if err := f.fault(); err != nil {
		return err
	}
	return f.Inner.Load(ctx, m)
}
func (f *Faulty) Remove(ctx context.Context, m nodeenrollment.MessageWithId) error {
	if err := f.fault(); err != nil {
		return err
	}
	return f.Inner.Remove(ctx, m)
}
func (f *Faulty) List(ctx context.Context, m proto.Message) ([]string, error) {
	if err := f.fault(); err != nil {
		return nil, err
	}
	return f.Inner.List(ctx, m)
}

// FaultyNodeId is Faulty over a NodeIdLoader storage.
type FaultyNodeId struct {
	*Faulty
	Loader nodeenrollment.NodeIdLoader
}

func (f *FaultyNodeId) LoadByNodeId(ctx context.Context, m nodeenrollment.MessageWithNodeId) error {
	if err := f.fault(); err != nil {
		return err
	}
	return f.Loader.LoadByNodeId(ctx, m)
}

// State builds a one-field client/application state struct without going through structpb's reflection helpers.
func State(v string) *structpb.Struct {
	return &structpb.Struct{Fields: map[string]*structpb.Value{"k": {Kind: &structpb.Value_StringValue{StringValue: v}}}}
}

// StateValue reads the field State wrote ("" when absent).
func StateValue(s *structpb.Struct) string {
	if s == nil || s.Fields == nil {
		return ""
	}
	v, ok := s.Fields["k"]
	if !ok || v == nil {
		return ""
	}
	sv, ok := v.Kind.(*structpb.Value_StringValue)
	if !ok {
		return ""
	}
	return sv.StringValue
}

// ---- certificates ----

// MkCert issues a certificate for universe key subjectKey signed by universe key signerKey.
func MkCert(tmpl, parent *x509.Certificate, subjectKey, signerKey int) []byte {
	priv, err := x509.ParsePKCS8PrivateKey(vf.Pkcs8(signerKey))
	if err != nil {
		panic(err)
	}
	pub, err := x509.ParsePKIXPublicKey(vf.Pkix(subjectKey))
	if err != nil {
		panic(err)
	}
	der, err := x509.CreateCertificate(rand.Reader, tmpl, parent, pub, priv)
	if err != nil {
		panic(err)
	}
	return der
}

// RootTemplate is the self-signed CA template of universe key k with the given window.
func RootTemplate(k int, nb, na time.Time) *x509.Certificate {
	// named like the roots the library mints (rotation/roots.go): subject and DNS name are the key ID of the root's
	// key, so two roots never share a subject
	keyId, err := nodeenrollment.KeyIdFromPkix(vf.Pkix(k))
	if err != nil {
		panic(err)
	}
	return &x509.Certificate{SubjectKeyId: vf.Pkix(k), AuthorityKeyId: vf.Pkix(k), Subject: pkix.Name{CommonName: keyId}, DNSNames: []string{keyId, nodeenrollment.CommonDnsName},
		SerialNumber: big.NewInt(1), NotBefore: nb, NotAfter: na, IsCA: true, BasicConstraintsValid: true}
}

// MkRoot builds a stored-form root for universe key k.
func MkRoot(id string, k int, nb, na time.Time) (*types.RootCertificate, *x509.Certificate) {
	tmpl := RootTemplate(k, nb, na)
	der := MkCert(tmpl, tmpl, k, k)
	return &types.RootCertificate{Id: id, PublicKeyPkix: vf.Pkix(k), PrivateKeyPkcs8: vf.Pkcs8(k), PrivateKeyType: types.KEYTYPE_ED25519,
		CertificateDer: der, NotBefore: timestamppb.New(nb), NotAfter: timestamppb.New(na)}, tmpl
}

// StoreRoots stores a current (universe key 0) and a next (universe key 1) root valid from t0-1h to t0+1h.
func StoreRoots(ctx context.Context, st nodeenrollment.Storage, t0 time.Time, opt ...nodeenrollment.Option) (cur, next *types.RootCertificate) {
	cur, _ = MkRoot("current", 0, t0.Add(-time.Hour), t0.Add(time.Hour))
	next, _ = MkRoot("next", 1, t0.Add(-time.Hour), t0.Add(time.Hour))
	if err := (&types.RootCertificates{Id: nodeenrollment.RootsMessageId, Current: cur, Next: next}).Store(ctx, st, opt...); err != nil {
		panic(err)
	}
	return cur, next
}

// ---- TLS peers as seen by the handshake contract model ----

// Peer is the remote client of a server-side handshake. Natively Conn is one end of a net.Pipe driven by a
// real crypto/tls client (vf.AdversaryConn); under the engine the handshake model reads the fields.
type Peer struct {
	net.Conn
	Protos       []string
	Chain        [][]byte
	HoldsLeafKey bool
	NotTLS       bool  // writes bytes that are not TLS, then closes
	Abort        bool  // aborts with a fatal alert after the server's flight
	AbortErr     error // what the server's handshake returns then (engine side; natively it is crypto/tls's *net.OpError)
	Reset        bool  // completes the handshake, then resets the connection: the server's Close (close_notify write) fails
	ResetErr     error // what the server's Close returns then (engine side; natively a write error on the reset connection)
}

// ConnReset mimics the error of a write on a connection the peer has reset.
type ConnReset struct{}

func (ConnReset) Error() string   { return "write: connection reset by peer" }
func (ConnReset) Temporary() bool { return false }
func (ConnReset) Timeout() bool   { return false }

// RemoteAbort mimics the *net.OpError crypto/tls returns for a fatal alert from the peer: not temporary, not a timeout.
type RemoteAbort struct{}

func (RemoteAbort) Error() string   { return "remote error: tls: bad certificate" }
func (RemoteAbort) Temporary() bool { return false }
func (RemoteAbort) Timeout() bool   { return false }

// Script is a base listener that hands out the scripted connections / errors in order, then net.ErrClosed.
type Script struct {
	Conns []net.Conn
	Errs  []error
	I     int
	Hold  chan struct{} // when set: an exhausted script blocks until the harness closes this channel ("the base listener is closed")
	Final error         // what an exhausted script reports (default net.ErrClosed): a closed listener may report another error
	Polls int           // Accept calls made after the script was exhausted
	// Gate, when set, is waited on before the connection with index GateAt is handed out: the harness decides when
	// that connection "arrives" (e.g. after it has registered another sub-listener).
	Gate   chan struct{}
	GateAt int
}

func (l *Script) Accept() (net.Conn, error) {
	if l.I >= len(l.Conns) {
		if l.Hold != nil {
			<-l.Hold
		}
		l.Polls++
		// a consumer that keeps polling a listener which has reported its failure never stops: flagged here, because an
		// endless loop is otherwise only an exceeded unwinding bound
		vf.Assert("base-listener-not-polled-again-after-it-failed", l.Polls <= 3)
		if l.Polls > 3 {
			return nil, net.ErrClosed // let the run end; the failed assertion above is the verdict
		}
		if l.Final != nil {
			return nil, l.Final
		}
		return nil, net.ErrClosed
	}
	if l.Gate != nil && l.I == l.GateAt {
		<-l.Gate
	}
	c, e := l.Conns[l.I], l.Errs[l.I]
	l.I++
	return c, e
}
func (l *Script) Close() error   { return nil }
func (l *Script) Addr() net.Addr { return nil }
