//go:build verif

package vfs

import (
	"context"
	"errors"
	"strings"

	"github.com/hashicorp/nodeenrollment"
	"github.com/hashicorp/nodeenrollment/types"
	"github.com/hashicorp/nodeenrollment/zzverif/vf"
)

// Msg builds a message of one of the four stored types carrying an id and a marker (a field every type has).
func Msg(kind int, id, marker string) nodeenrollment.MessageWithId {
	switch kind {
	case 0:
		return &types.NodeCredentials{Id: id, WrappingKeyId: marker}
	case 1:
		return &types.NodeInformation{Id: id, WrappingKeyId: marker}
	case 2:
		return &types.RootCertificates{Id: id, WrappingKeyId: marker}
	default:
		return &types.ServerLedActivationToken{Id: id, WrappingKeyId: marker}
	}
}

// Marker reads the marker back.
func Marker(m nodeenrollment.MessageWithId) string {
	switch t := m.(type) {
	case *types.NodeCredentials:
		return t.WrappingKeyId
	case *types.NodeInformation:
		return t.WrappingKeyId
	case *types.RootCertificates:
		return t.WrappingKeyId
	case *types.ServerLedActivationToken:
		return t.WrappingKeyId
	}
	return ""
}

type mapRef struct {
	kind       int
	id, marker string
}

// PathSafe is the assumption on ids: non-empty, no path separator, not a dot name (true of every id the library makes).
func PathSafe(id string) bool {
	return vf.And(vf.And(len(id) > 0, vf.Not(strings.Contains(id, "/"))), vf.And(id != ".", id != ".."))
}

// MapStep is the inductive step of "the back end behaves as a typed key-value map": from an arbitrary pre-state of
// `pre` stored entries (any types, arbitrary ids and contents; the second may overwrite the first), ONE arbitrary
// operation is run on the real back end and compared with a reference map. storeOnce: the back end refuses to
// overwrite node records (and root sets).
func MapStep(ctx context.Context, st nodeenrollment.Storage, storeOnce bool, pre int) {
	var ref []mapRef
	find := func(kind int, id string) int {
		for i := range ref {
			if ref[i].kind == kind && ref[i].id == id {
				return i
			}
		}
		return -1
	}
	once := func(kind int) bool { return storeOnce && kind == 1 }
	for n := 0; n < pre; n++ {
		k, id, mk := vf.Int("pre-kind", 0, 3), vf.String("pre-id", 6), vf.String("pre-marker", 6)
		vf.Assume(PathSafe(id))
		err := st.Store(ctx, Msg(k, id, mk))
		if i := find(k, id); i >= 0 {
			if once(k) {
				vf.Assert("store-once-refuses-a-second-node-record", err != nil)
			} else {
				vf.Assert("pre-store-ok", err == nil)
				ref[i].marker = mk
			}
		} else {
			vf.Assert("pre-store-ok", err == nil)
			ref = append(ref, mapRef{k, id, mk})
		}
	}
	untouched := func(kind int, id string) {
		for _, r := range ref { // every other entry is exactly as it was
			if !(r.kind == kind && r.id == id) {
				o := Msg(r.kind, r.id, "")
				vf.Assert("others-untouched", vf.And(st.Load(ctx, o) == nil, Marker(o) == r.marker))
			}
		}
	}
	op, kind, id := vf.Int("op", 0, 3), vf.Int("kind", 0, 3), vf.String("id", 6)
	vf.Assume(PathSafe(id))
	switch op {
	case 0:
		marker := vf.String("marker", 6)
		err := st.Store(ctx, Msg(kind, id, marker))
		want := marker
		if i := find(kind, id); i >= 0 && once(kind) {
			vf.Assert("store-once-refuses-to-overwrite-a-node-record", err != nil)
			want = ref[i].marker
		} else {
			vf.Assert("store-ok", err == nil)
		}
		m := Msg(kind, id, "")
		vf.Assert("load-returns-the-most-recently-stored-message", vf.And(st.Load(ctx, m) == nil, Marker(m) == want))
		untouched(kind, id)
	case 1:
		m := Msg(kind, id, "")
		lerr := st.Load(ctx, m)
		if i := find(kind, id); i >= 0 {
			vf.Assert("load-returns-last-stored", vf.And(lerr == nil, Marker(m) == ref[i].marker))
		} else {
			vf.Assert("load-absent-is-not-found", errors.Is(lerr, nodeenrollment.ErrNotFound))
		}
	case 2:
		rerr := st.Remove(ctx, Msg(kind, id, ""))
		if find(kind, id) >= 0 {
			vf.Assert("remove-present-ok", rerr == nil)
		}
		vf.Assert("gone-after-remove", errors.Is(st.Load(ctx, Msg(kind, id, "")), nodeenrollment.ErrNotFound))
		untouched(kind, id)
	default:
		if kind == 3 {
			_, lerr := st.List(ctx, Msg(kind, "", ""))
			vf.Assert("tokens-are-not-listable", lerr != nil)
			break
		}
		got, lerr := st.List(ctx, Msg(kind, "", ""))
		vf.Assert("list-ok", lerr == nil)
		want := 0
		for _, r := range ref {
			if r.kind == kind {
				want++
				found := false
				for _, g := range got {
					found = vf.Or(found, g == r.id)
				}
				vf.Assert("listed-contains-every-present-id", found)
			}
		}
		vf.Assert("listed-exactly-the-present-ids", len(got) == want)
	}
	vf.Assert("nil-message-refused", st.Store(ctx, nil) != nil)
	vf.Assert("unknown-message-type-refused", st.Store(ctx, &types.RootCertificate{Id: "a-single-root-is-not-a-stored-type"}) != nil)
	vf.Reach("end")
}
