//go:build verif

package rotation

import (
	"context"
	"crypto/x509"
	"time"

	"github.com/hashicorp/nodeenrollment"
	"github.com/hashicorp/nodeenrollment/types"
	"github.com/hashicorp/nodeenrollment/zzverif/vf"
	"github.com/hashicorp/nodeenrollment/zzverif/vfs"
)

func init() { VfHarnesses["VerifC04Certificates"] = VerifC04Certificates }

// C04 (certificate half): roots minted by the real RotateRootCertificates, node enrolled by the library's own
// honest flow; every issued certificate is a non-CA client-auth leaf for the node's key, named by its key id,
// valid exactly as long as its issuing root; one chain per server root; the stored record equals the response.
func VerifC04Certificates() {
	ctx := context.Background()
	st := &vfs.Storage{}
	t0 := vf.Now()
	vfDeadline = t0.Add(time.Second)
	roots, err := RotateRootCertificates(ctx, st)
	vfOK("rotate-roots", err)
	creds := vfEnroll(ctx, st, nil)
	vf.Assert("one-chain-per-root", len(creds.CertificateBundles) == 2)
	keyId, _ := nodeenrollment.KeyIdFromPkix(creds.CertificatePublicKeyPkix)
	rec, err := types.LoadNodeInformation(ctx, st, keyId)
	vfOK("load-record", err)
	vf.Assert("record-has-the-same-chains", len(rec.CertificateBundles) == 2)
	for i, root := range []*types.RootCertificate{roots.Current, roots.Next} {
		b := creds.CertificateBundles[i]
		vf.Assert("record-equals-response", vf.And(vf.EqBytes(b.CertificateDer, rec.CertificateBundles[i].CertificateDer),
			vf.EqBytes(b.CaCertificateDer, rec.CertificateBundles[i].CaCertificateDer)))
		vf.Assert("ca-is-the-servers-root", vf.EqBytes(b.CaCertificateDer, root.CertificateDer))
		leaf, err := x509.ParseCertificate(b.CertificateDer)
		vfOK("parse-leaf", err)
		vf.Assert("leaf-is-not-a-ca", !leaf.IsCA)
		vf.Assert("leaf-is-client-auth-only", len(leaf.ExtKeyUsage) == 1 && leaf.ExtKeyUsage[0] == x509.ExtKeyUsageClientAuth)
		vf.Assert("leaf-names-the-node-key", vf.And(vf.EqBytes(leaf.SubjectKeyId, creds.CertificatePublicKeyPkix), leaf.Subject.CommonName == keyId))
		vf.Assert("leaf-lives-exactly-as-long-as-its-root", vf.And(vf.TimeEq(leaf.NotBefore, root.NotBefore.AsTime()), vf.TimeEq(leaf.NotAfter, root.NotAfter.AsTime())))
		pk, err := x509.MarshalPKIXPublicKey(leaf.PublicKey)
		vfOK("marshal-leaf-key", err)
		vf.Assert("leaf-certifies-the-node-key", vf.EqBytes(pk, creds.CertificatePublicKeyPkix))
	}
	vf.Reach("end")
}
