//go:build verif

package rotation

import (
	"errors"
	"context"
	"time"

	"github.com/hashicorp/nodeenrollment"
	"github.com/hashicorp/nodeenrollment/types"
	"github.com/hashicorp/nodeenrollment/zzverif/vf"
	"github.com/hashicorp/nodeenrollment/zzverif/vfs"
	"google.golang.org/protobuf/types/known/timestamppb"
)

var VfHarnesses = map[string]func(){"VerifC08Rotate": VerifC08Rotate}

func vfRoot(id string, k int, nb, na time.Time) *types.RootCertificate {
	return &types.RootCertificate{Id: id, PublicKeyPkix: vf.Pkix(k), PrivateKeyPkcs8: vf.Pkcs8(k), PrivateKeyType: types.KEYTYPE_ED25519,
		CertificateDer: []byte("der"), NotBefore: timestamppb.New(nb), NotAfter: timestamppb.New(na)}
}

// C08: one call of RotateRootCertificates from an arbitrary stored pair of windows.
func VerifC08Rotate() {
	ctx := context.Background()
	st := &vfs.Storage{}
	t0 := vf.Now()
	has := vf.Bool("has-roots")
	cNB, cNA := vf.TimeFromNow("cNB", t0), vf.TimeFromNow("cNA", t0)
	nNB, nNA := vf.TimeFromNow("nNB", t0), vf.TimeFromNow("nNA", t0)
	if has {
		pre := &types.RootCertificates{Id: nodeenrollment.RootsMessageId, Current: vfRoot("current", 0, cNB, cNA), Next: vfRoot("next", 1, nNB, nNA)}
		if err := pre.Store(ctx, st); err != nil {
			panic(err)
		}
	}
	life := vf.Dur("lifetime", 1000000000, 400000000000000000)
	nb := vf.Dur("nbskew", -1000000000000000, 0)
	na := vf.Dur("naskew", 0, 1000000000000000)

	reinit := vf.Bool("reinitialize-requested")
	out, err := RotateRootCertificates(ctx, st, nodeenrollment.WithCertificateLifetime(life),
		nodeenrollment.WithNotBeforeClockSkew(nb), nodeenrollment.WithNotAfterClockSkew(na), nodeenrollment.WithReinitializeRoots(reinit))
	has = vf.And(has, vf.Not(reinit)) // reinitialization discards whatever was stored: the call then behaves as on empty storage
	vf.Assert("succeeds", err == nil)
	if err != nil {
		return
	}
	now := vf.ClockReading(1) // the reading decideWhatToMake took
	tEnd := vf.Now()
	vf.Assume(vf.TimeLE(tEnd, t0.Add(100*time.Millisecond))) // clock assumption: the call is short

	loaded, lerr := types.LoadRootCertificates(ctx, st)
	vf.Assert("persisted", lerr == nil)
	if lerr != nil {
		return
	}
	oCNB, oCNA := out.Current.NotBefore.AsTime(), out.Current.NotAfter.AsTime()
	oNNB, oNNA := out.Next.NotBefore.AsTime(), out.Next.NotAfter.AsTime()
	vf.Assert("stored-equals-returned", vf.And(
		vf.And(vf.TimeEq(oCNB, loaded.Current.NotBefore.AsTime()), vf.TimeEq(oCNA, loaded.Current.NotAfter.AsTime())),
		vf.And(vf.And(vf.TimeEq(oNNB, loaded.Next.NotBefore.AsTime()), vf.TimeEq(oNNA, loaded.Next.NotAfter.AsTime())),
			vf.And(vf.EqBytes(out.Current.PublicKeyPkix, loaded.Current.PublicKeyPkix), vf.EqBytes(out.Next.PublicKeyPkix, loaded.Next.PublicKeyPkix)))))
	vf.Assert("labels", vf.And(out.Current.Id == "current", out.Next.Id == "next"))
	vf.Assert("stored-labels", vf.And(loaded.Current.Id == "current", loaded.Next.Id == "next"))

	// what happened, observed from the keys
	keptCur := vf.EqBytes(out.Current.PublicKeyPkix, vf.Pkix(0))
	promoted := vf.EqBytes(out.Current.PublicKeyPkix, vf.Pkix(1))
	keptNext := vf.EqBytes(out.Next.PublicKeyPkix, vf.Pkix(1))

	// what the statement says should happen, from the stored windows and `now`
	curValid := vf.And(vf.TimeLE(cNB, now), vf.TimeLE(now, cNA))
	nextStarted := vf.TimeLE(nNB, now)
	nextExpired := vf.TimeLT(nNA, now)
	curExpired := vf.TimeLT(cNA, now)
	nextUsable := vf.And(vf.TimeLT(nNB, now), vf.TimeLT(now, nNA))
	curNotYet := vf.TimeLT(now, cNB) // takes precedence: "current is not yet valid" => start over
	wantNothing := vf.And(has, vf.And(curValid, vf.And(vf.Not(nextExpired), vf.Not(nextStarted))))
	wantPromote := vf.And(vf.And(has, vf.Not(curNotYet)), vf.Or(vf.And(curValid, vf.And(vf.Not(nextExpired), nextStarted)), vf.And(curExpired, nextUsable)))
	wantRemint := vf.And(has, vf.And(curValid, nextExpired))

	vf.Assert("nothing-iff", vf.Iff(wantNothing, vf.And(keptCur, keptNext)))
	vf.Assert("promote-iff", vf.Iff(wantPromote, promoted))
	vf.Assert("remint-iff", vf.Iff(wantRemint, vf.And(keptCur, vf.Not(keptNext))))

	if wantNothing {
		vf.Reach("nothing")
		vf.Assert("unchanged-current-valid", vf.And(vf.TimeLE(oCNB, now), vf.TimeLE(now, oCNA)))
	} else {
		// every changed root set: overlap, and the minted next is shifted by half of current's remaining life
		if wantPromote {
			vf.Reach("promote")
			mint, until := vf.ClockReading(2), vf.ClockReading(3)
			vf.Assume(vf.TimeLE(until, oCNA)) // clock assumption: the call finishes before the promoted root expires
			vf.Assert("promoted-current-valid", vf.And(vf.TimeLE(oCNB, now), vf.TimeLE(now, oCNA)))
			vf.Assert("next-begins-before-current-ends", vf.TimeLE(oNNB, oCNA))
			shift := oCNA.Sub(until) / 2
			_ = mint
			vf.Assert("next-window", vf.And(vf.TimeIs(oNNB, 2, nb+shift), vf.TimeIs(oNNA, 2, life+na+shift)))
		} else if wantRemint {
			vf.Reach("remint")
			vf.Assume(vf.TimeLE(vf.ClockReading(3), oCNA))
			vf.Assert("next-begins-before-current-ends", vf.TimeLE(oNNB, oCNA))
		} else {
			vf.Reach("startover")
			mintC, mintN, until := vf.ClockReading(2), vf.ClockReading(3), vf.ClockReading(4)
			vf.Assert("new-current-window", vf.And(vf.TimeIs(oCNB, 2, nb), vf.TimeIs(oCNA, 2, life+na)))
			vf.Assert("new-current-valid-when-minted", vf.And(vf.TimeLE(oCNB, mintC), vf.TimeLE(mintC, oCNA)))
			shift := oCNA.Sub(until) / 2
			_ = mintN
			vf.Assert("new-next-window", vf.And(vf.TimeIs(oNNB, 3, nb+shift), vf.TimeIs(oNNA, 3, life+na+shift)))
			vf.Assert("next-begins-before-current-ends", vf.TimeLE(oNNB, oCNA))
			vf.Assert("next-later-than-current", vf.And(vf.TimeLT(oCNB, oNNB), vf.TimeLT(oCNA, oNNA)))
		}
	}
}

func init() { VfHarnesses["VerifC08ReinitRemoveFails"] = VerifC08ReinitRemoveFails }

// vfNoRemove is a storage whose Remove fails (a transient back-end error) and changes nothing.
type vfNoRemove struct{ *vfs.Storage }

func (s vfNoRemove) Remove(ctx context.Context, m nodeenrollment.MessageWithId) error {
	return errors.New("injected: remove failed")
}

// C08 (reinitialization replaces both roots, always): arbitrary stored roots, reinitialization requested, and the
// removal of the stored roots fails. The call may fail; if it reports success, neither returned nor stored root is
// one of the old ones.
func VerifC08ReinitRemoveFails() {
	ctx := context.Background()
	st := &vfs.Storage{}
	t0 := vf.Now()
	pre := &types.RootCertificates{Id: nodeenrollment.RootsMessageId,
		Current: vfRoot("current", 0, vf.TimeFromNow("cNB", t0), vf.TimeFromNow("cNA", t0)),
		Next:    vfRoot("next", 1, vf.TimeFromNow("nNB", t0), vf.TimeFromNow("nNA", t0))}
	if err := pre.Store(ctx, st); err != nil {
		panic(err)
	}
	out, err := RotateRootCertificates(ctx, vfNoRemove{st}, nodeenrollment.WithReinitializeRoots(true))
	old := func(r *types.RootCertificate) bool {
		return vf.Or(vf.EqBytes(r.PublicKeyPkix, vf.Pkix(0)), vf.EqBytes(r.PublicKeyPkix, vf.Pkix(1)))
	}
	if err == nil {
		vf.Reach("success")
		vf.Assert("reinitialization-never-keeps-an-old-root", vf.Not(vf.Or(old(out.Current), old(out.Next))))
		loaded, lerr := types.LoadRootCertificates(ctx, st)
		vf.Assert("persisted", lerr == nil)
		if lerr == nil {
			vf.Assert("stored-roots-are-new-too", vf.Not(vf.Or(old(loaded.Current), old(loaded.Next))))
		}
	} else {
		vf.Reach("failed")
		vf.Assert("failure-hands-out-nothing", out == nil)
	}
	vf.Reach("end")
}
