//go:build verif

package rotation

import (
	"context"
	"errors"

	"github.com/hashicorp/nodeenrollment"
	"github.com/hashicorp/nodeenrollment/types"
	"github.com/hashicorp/nodeenrollment/zzverif/vf"
	"github.com/hashicorp/nodeenrollment/zzverif/vfs"
	"google.golang.org/protobuf/proto"
)

func init() { VfHarnesses["VerifC13RotateFaults"] = VerifC13RotateFaults }

// vfFaulty fails exactly one storage operation: the failAt-th (0-based), with a chosen error kind.
type vfFaulty struct {
	inner  *vfs.Storage
	n      int
	failAt int
	kind   int
	hit    bool
}

func (f *vfFaulty) fault() error {
	i := f.n
	f.n++
	if i == f.failAt {
		f.hit = true
		switch f.kind {
		case 0:
			return errors.New("injected storage fault")
		case 1:
			return nodeenrollment.ErrNotFound
		default:
			return context.Canceled
		}
	}
	return nil
}
func (f *vfFaulty) Store(ctx context.Context, m nodeenrollment.MessageWithId) error {
	if err := f.fault(); err != nil {
		return err
	}
	return f.inner.Store(ctx, m)
}
func (f *vfFaulty) Load(ctx context.Context, m nodeenrollment.MessageWithId) error {
	if err := f.fault(); err != nil {
		return err
	}
	return f.inner.Load(ctx, m)
}
func (f *vfFaulty) Remove(ctx context.Context, m nodeenrollment.MessageWithId) error {
	if err := f.fault(); err != nil {
		return err
	}
	return f.inner.Remove(ctx, m)
}
func (f *vfFaulty) List(ctx context.Context, m proto.Message) ([]string, error) {
	if err := f.fault(); err != nil {
		return nil, err
	}
	return f.inner.List(ctx, m)
}

// C13 for root rotation (with and without reinitialisation): one failing storage operation at a
// symbolic position; success must imply durability, failure must hand out nothing.
func VerifC13RotateFaults() {
	ctx := context.Background()
	inner := &vfs.Storage{}
	t0 := vf.Now()
	if vf.Bool("has-roots") {
		pre := &types.RootCertificates{Id: nodeenrollment.RootsMessageId,
			Current: vfRoot("current", 0, vf.TimeFromNow("cNB", t0), vf.TimeFromNow("cNA", t0)),
			Next:    vfRoot("next", 1, vf.TimeFromNow("nNB", t0), vf.TimeFromNow("nNA", t0))}
		if err := pre.Store(ctx, inner); err != nil {
			panic(err)
		}
	}
	const maxOps = 6
	f := &vfFaulty{inner: inner, failAt: vf.Int("fail-at", -1, maxOps), kind: vf.Int("error-kind", 0, 2)}
	out, err := RotateRootCertificates(ctx, f, nodeenrollment.WithReinitializeRoots(vf.Bool("reinitialize")))
	vf.Assert("op-count-within-bound", f.n <= maxOps) // unwinding check for the fault position range
	if f.hit {
		vf.Reach("fault-hit")
	}
	if err == nil {
		vf.Reach("success")
		loaded, lerr := types.LoadRootCertificates(ctx, inner)
		vf.Assert("success-implies-persisted", lerr == nil)
		if lerr == nil {
			vf.Assert("persisted-equals-returned", vf.And(
				vf.And(vf.EqBytes(out.Current.PublicKeyPkix, loaded.Current.PublicKeyPkix), vf.EqBytes(out.Next.PublicKeyPkix, loaded.Next.PublicKeyPkix)),
				vf.And(vf.TimeEq(out.Current.NotAfter.AsTime(), loaded.Current.NotAfter.AsTime()), vf.TimeEq(out.Next.NotAfter.AsTime(), loaded.Next.NotAfter.AsTime()))))
		}
	} else {
		vf.Reach("error")
		vf.Assert("error-hands-out-nothing", out == nil)
	}
}
