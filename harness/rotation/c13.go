//go:build verif

package rotation

import (
	"context"
	"errors"
	"google.golang.org/protobuf/types/known/timestamppb"
	"time"

	"github.com/hashicorp/nodeenrollment"
	"github.com/hashicorp/nodeenrollment/types"
	"github.com/hashicorp/nodeenrollment/zzverif/vf"
	"github.com/hashicorp/nodeenrollment/zzverif/vfs"
	"google.golang.org/protobuf/proto"
)

func init() { VfHarnesses["VerifC13RotateFaults"] = VerifC13RotateFaults }

// vfFaulty fails exactly one storage operation: the failAt-th (0-based), with a chosen error kind.
type vfFaulty struct {
	inner  *vfs.Storage
	n      int
	failAt int
	kind   int
	hit    bool
}

func (f *vfFaulty) fault() error {
	i := f.n
	f.n++
	if i == f.failAt {
		f.hit = true
		switch f.kind {
		case 0:
			return errors.New("injected storage fault")
		case 1:
			return nodeenrollment.ErrNotFound
		default:
			return context.Canceled
		}
	}
	return nil
}
func (f *vfFaulty) Store(ctx context.Context, m nodeenrollment.MessageWithId) error {
	if err := f.fault(); err != nil {
		return err
	}
	return f.inner.Store(ctx, m)
}
func (f *vfFaulty) Load(ctx context.Context, m nodeenrollment.MessageWithId) error {
	if err := f.fault(); err != nil {
		return err
	}
	return f.inner.Load(ctx, m)
}
func (f *vfFaulty) Remove(ctx context.Context, m nodeenrollment.MessageWithId) error {
	if err := f.fault(); err != nil {
		return err
	}
	return f.inner.Remove(ctx, m)
}
func (f *vfFaulty) List(ctx context.Context, m proto.Message) ([]string, error) {
	if err := f.fault(); err != nil {
		return nil, err
	}
	return f.inner.List(ctx, m)
}

// C13 for root rotation (with and without reinitialisation): one failing storage operation at a
// symbolic position; success must imply durability, failure must hand out nothing.
func VerifC13RotateFaults() {
	ctx := context.Background()
	inner := &vfs.Storage{}
	t0 := vf.Now()
	if vf.Bool("has-roots") {
		pre := &types.RootCertificates{Id: nodeenrollment.RootsMessageId,
			Current: vfRoot("current", 0, vf.TimeFromNow("cNB", t0), vf.TimeFromNow("cNA", t0)),
			Next:    vfRoot("next", 1, vf.TimeFromNow("nNB", t0), vf.TimeFromNow("nNA", t0))}
		if err := pre.Store(ctx, inner); err != nil {
			panic(err)
		}
	}
	const maxOps = 6
	f := &vfFaulty{inner: inner, failAt: vf.Int("fail-at", -1, maxOps), kind: vf.Int("error-kind", 0, 2)}
	out, err := RotateRootCertificates(ctx, f, nodeenrollment.WithReinitializeRoots(vf.Bool("reinitialize")))
	vf.Bound("op-count-within-bound", f.n <= maxOps) // unwinding check for the fault position range
	if f.hit {
		vf.Reach("fault-hit")
	}
	if err == nil {
		vf.Reach("success")
		loaded, lerr := types.LoadRootCertificates(ctx, inner)
		vf.Assert("success-implies-persisted", lerr == nil)
		if lerr == nil {
			vf.Assert("persisted-equals-returned", vf.And(
				vf.And(vf.EqBytes(out.Current.PublicKeyPkix, loaded.Current.PublicKeyPkix), vf.EqBytes(out.Next.PublicKeyPkix, loaded.Next.PublicKeyPkix)),
				vf.And(vf.TimeEq(out.Current.NotAfter.AsTime(), loaded.Current.NotAfter.AsTime()), vf.TimeEq(out.Next.NotAfter.AsTime(), loaded.Next.NotAfter.AsTime()))))
		}
	} else {
		vf.Reach("error")
		vf.Assert("error-hands-out-nothing", out == nil)
	}
}

func init() { VfHarnesses["VerifC13NodeRotationFaults"] = VerifC13NodeRotationFaults }

// C13, node credential rotation: a valid rotation request for record R1 over a faulty storage. A failed call hands
// out nothing and leaves R1 and the other node's record exactly as they were; a successful one has persisted the
// new record.
func VerifC13NodeRotationFaults() {
	ctx := context.Background()
	inner := &vfs.Storage{}
	t0 := vf.Now()
	vf.ShortScenario(t0, time.Second)
	vfs.StoreRoots(ctx, inner, t0)
	r1, m := vfParty{2, 0, 10}, vfParty{4, 2, 12}
	for _, r := range []*types.NodeInformation{r1.record("n1", "state-1"), m.record("n2", "state-m")} {
		if err := r.Store(ctx, inner); err != nil {
			panic(err)
		}
	}
	info := &types.FetchNodeCredentialsInfo{CertificatePublicKeyPkix: vf.Pkix(5), CertificatePublicKeyType: types.KEYTYPE_ED25519,
		Nonce: []byte("the-rotated-credentials-nonce-32"), EncryptionPublicKeyBytes: vf.X25519Pub(5), EncryptionPublicKeyType: types.KEYTYPE_X25519,
		NotBefore: timestamppb.New(t0.Add(-time.Hour)), NotAfter: timestamppb.New(t0.Add(time.Hour))}
	bundle, err := proto.Marshal(info)
	if err != nil {
		panic(err)
	}
	payload, err := nodeenrollment.EncryptMessage(ctx, &types.FetchNodeCredentialsRequest{Bundle: bundle, BundleSignature: vf.SigBy(5, bundle)}, r1.creds())
	if err != nil {
		panic(err)
	}
	snap := inner.Snapshot()
	const maxOps = 10
	f := &vfs.Faulty{Inner: inner, FailAt: vf.Int("fail-at", -1, maxOps), ErrKind: vf.Int("error-kind", 0, 2)}
	resp, err := RotateNodeCredentials(ctx, f, &types.RotateNodeCredentialsRequest{CertificatePublicKeyPkix: vf.Pkix(2), EncryptedFetchNodeCredentialsRequest: payload})
	vf.Bound("op-count-within-bound", f.N <= maxOps)
	if f.Hit {
		vf.Reach("fault-hit")
	}
	newId, _ := nodeenrollment.KeyIdFromPkix(vf.Pkix(5))
	if err == nil {
		vf.Reach("rotated")
		vf.Assert("success-implies-new-record-persisted", inner.Has(vfs.KindNode, newId))
		vf.Assert("reply-handed-out", resp != nil && len(resp.EncryptedFetchNodeCredentialsResponse) > 0)
	} else {
		vf.Reach("failed")
		vf.Assert("failure-hands-out-nothing", resp == nil)
	}
	vf.Assert("no-fault-means-success", vf.Implies(!f.Hit, err == nil))
	// whatever happened, the existing records of this node and of the other node are byte-for-byte what they were
	for _, e := range snap {
		if e.Kind == vfs.KindNode {
			vf.Assert("existing-records-untouched", vf.And(inner.Has(vfs.KindNode, e.Id), vf.EqBytes(inner.Get(vfs.KindNode, e.Id), e.Data)))
		}
	}
}
