//go:build verif

package rotation

import (
	"context"
	"time"

	"github.com/hashicorp/nodeenrollment"
	"github.com/hashicorp/nodeenrollment/registration"
	"github.com/hashicorp/nodeenrollment/types"
	"github.com/hashicorp/nodeenrollment/zzverif/vf"
	"github.com/hashicorp/nodeenrollment/zzverif/vfs"
	"google.golang.org/protobuf/proto"
	"google.golang.org/protobuf/types/known/structpb"
	"google.golang.org/protobuf/types/known/timestamppb"
)

func init() {
	VfHarnesses["VerifC10Rotate"] = VerifC10Rotate
	VfHarnesses["VerifC10Adversary"] = VerifC10Adversary
}

func vfStoreRoots(ctx context.Context, st *vfs.Storage, t0 time.Time) { vfs.StoreRoots(ctx, st, t0) }

var vfDeadline time.Time

// vfOK: every honest step must succeed, provided the clock stayed inside the scenario budget.
func vfOK(step string, err error) {
	vf.Assume(vf.TimeLE(vf.Now(), vfDeadline))
	vf.Assert("honest-step-succeeds:"+step, err == nil)
	vf.Assume(err == nil)
}

// vfEnroll runs the library's own honest node-led enrollment end to end (this is the C04 flow).
func vfEnroll(ctx context.Context, server *vfs.Storage, state *structpb.Struct, sopts ...nodeenrollment.Option) *types.NodeCredentials {
	nodeSt := &vfs.Storage{}
	creds, err := types.NewNodeCredentials(ctx, nodeSt)
	vfOK("new-node-credentials", err)
	req, err := creds.CreateFetchNodeCredentialsRequest(ctx)
	vfOK("create-fetch-request", err)
	_, err = registration.AuthorizeNode(ctx, server, req, append([]nodeenrollment.Option{nodeenrollment.WithState(state)}, sopts...)...)
	vfOK("authorize", err)
	resp, err := registration.FetchNodeCredentials(ctx, server, req, sopts...)
	vfOK("fetch", err)
	_, err = creds.HandleFetchNodeCredentialsResponse(ctx, nodeSt, resp)
	vfOK("handle-response", err)
	return creds
}

// C10 (honest histories): two complete honest enrollments from the library's own code, then a rotation for node A
// whose payload was encrypted under A's or B's shared key; a replay of the same payload afterwards.
func VerifC10Rotate() {
	ctx := context.Background()
	st := &vfs.Storage{}
	t0 := vf.Now()
	vf.ShortScenario(t0, time.Second)
	vfDeadline = t0.Add(time.Second)
	vfStoreRoots(ctx, st, t0)
	nodeA := vfEnroll(ctx, st, vfs.State("state-of-A"))
	nodeB := vfEnroll(ctx, st, nil)
	vf.Assert("two-nodes-enrolled", st.Count(vfs.KindNode) == 2)

	newCreds, err := types.NewNodeCredentials(ctx, &vfs.Storage{})
	vfOK("new-credentials-for-rotation", err)
	fetchReq, err := newCreds.CreateFetchNodeCredentialsRequest(ctx)
	vfOK("fetch-request-for-rotation", err)
	useOwnKey := vf.Bool("payload-encrypted-under-named-nodes-key")
	src := nodeB
	if useOwnKey {
		src = nodeA
	}
	payload, err := nodeenrollment.EncryptMessage(ctx, fetchReq, src)
	vfOK("encrypt-payload", err)
	snap := st.Snapshot()
	resp, err := RotateNodeCredentials(ctx, st, &types.RotateNodeCredentialsRequest{
		CertificatePublicKeyPkix: nodeA.CertificatePublicKeyPkix, EncryptedFetchNodeCredentialsRequest: payload})
	vf.Assume(vf.TimeLE(vf.Now(), t0.Add(time.Second)))
	if err == nil && resp != nil {
		vf.Reach("rotated")
		vf.Assert("honoured-only-under-the-named-nodes-key", useOwnKey)
		vf.Assert("one-new-record", st.Count(vfs.KindNode) == 3)
		newId, _ := nodeenrollment.KeyIdFromPkix(newCreds.CertificatePublicKeyPkix)
		newRec, lerr := types.LoadNodeInformation(ctx, st, newId)
		vf.Assert("new-key-registered", lerr == nil)
		if lerr == nil {
			vf.Assert("state-carried-over", vfs.StateValue(newRec.State) == "state-of-A")
		}
		inner := new(types.FetchNodeCredentialsResponse)
		vf.Assert("reply-opens-with-old-key", nodeenrollment.DecryptMessage(ctx, resp.EncryptedFetchNodeCredentialsResponse, nodeA, inner) == nil)
		vf.Assert("reply-closed-to-other-node", nodeenrollment.DecryptMessage(ctx, resp.EncryptedFetchNodeCredentialsResponse, nodeB, new(types.FetchNodeCredentialsResponse)) != nil)
		_, herr := newCreds.HandleFetchNodeCredentialsResponse(ctx, &vfs.Storage{}, inner)
		vf.Assert("new-credentials-usable", herr == nil)
		_, rerr := RotateNodeCredentials(ctx, st, &types.RotateNodeCredentialsRequest{
			CertificatePublicKeyPkix: nodeA.CertificatePublicKeyPkix, EncryptedFetchNodeCredentialsRequest: payload})
		vf.Assert("replay-refused", rerr != nil)
		vf.Assert("replay-registers-nothing", st.Count(vfs.KindNode) == 3)
	} else {
		vf.Reach("refused")
		vf.Assert("own-key-request-is-honoured", vf.Not(useOwnKey))
		vf.Assert("refusal-registers-nothing-and-changes-nothing", st.KindSameAs(vfs.KindNode, snap))
	}
}

// ---- inductive-step form: arbitrary stored records, arbitrary request ----

type vfParty struct {
	cert, nodePriv, serverPriv int // universe keys: certificate key, node-side and server-side X25519 keys
}

func (p vfParty) record(nodeId, state string) *types.NodeInformation {
	id, _ := nodeenrollment.KeyIdFromPkix(vf.Pkix(p.cert))
	return &types.NodeInformation{Id: id, NodeId: nodeId, CertificatePublicKeyPkix: vf.Pkix(p.cert), CertificatePublicKeyType: types.KEYTYPE_ED25519,
		EncryptionPublicKeyBytes: vf.X25519Pub(p.nodePriv), EncryptionPublicKeyType: types.KEYTYPE_X25519, RegistrationNonce: []byte("old-registration-nonce-of-32-byt"),
		ServerEncryptionPrivateKeyBytes: vf.X25519Priv(p.serverPriv), ServerEncryptionPrivateKeyType: types.KEYTYPE_X25519, State: vfs.State(state)}
}

// creds is the node-side view of the same key agreement.
func (p vfParty) creds() *types.NodeCredentials {
	return &types.NodeCredentials{CertificatePublicKeyPkix: vf.Pkix(p.cert), EncryptionPrivateKeyBytes: vf.X25519Priv(p.nodePriv), EncryptionPrivateKeyType: types.KEYTYPE_X25519,
		ServerEncryptionPublicKeyBytes: vf.X25519Pub(p.serverPriv), ServerEncryptionPublicKeyType: types.KEYTYPE_X25519}
}

// C10 (adversarial step): the server stores, under node ID "n1", record R1 (optionally remembering a previous key
// pair) and record R2, in either order, and under "n2" another node's record M. An arbitrary rotation request
// arrives: it names any certificate key and optionally the node ID; its payload is a fetch request encrypted under
// R1's current key, R1's previous key, R2's key, M's key or an unrelated key; the inner request asks for a fresh or
// an already registered key, with a nonce of any length, well signed or not.
func VerifC10Adversary() {
	ctx := context.Background()
	inner := &vfs.Storage{}
	t0 := vf.Now()
	vf.ShortScenario(t0, time.Second)
	vfs.StoreRoots(ctx, inner, t0)
	r1, r1prev, r2, m, stranger := vfParty{2, 0, 10}, vfParty{6, 3, 13}, vfParty{3, 1, 11}, vfParty{4, 2, 12}, vfParty{2, 4, 10}
	rec1, rec2, recM := r1.record("n1", "state-1"), r2.record("n1", "state-2"), m.record("n2", "state-m")
	r1state := "state-1"
	if vf.Bool("R1-carries-no-state") {
		rec1.State, r1state = nil, ""
	}
	hasPrev := vf.Bool("R1-remembers-a-previous-key")
	if hasPrev {
		if err := rec1.SetPreviousEncryptionKey(r1prev.record("n1", "")); err != nil {
			panic(err)
		}
	}
	order := []*types.NodeInformation{rec1, rec2}
	r2first := vf.Bool("R2-stored-before-R1")
	if r2first {
		order = []*types.NodeInformation{rec2, rec1}
	}
	for _, r := range append(order, recM) {
		if err := r.Store(ctx, inner); err != nil {
			panic(err)
		}
	}
	loader := vf.Bool("storage-supports-node-id-lookup")
	var nidSt *vfs.NodeIdStorage
	var st nodeenrollment.Storage = inner
	if loader {
		nidSt = &vfs.NodeIdStorage{Storage: inner}
		st = nidSt
	}

	// the inner fetch request
	newKey := vf.Int("new-certificate-key", 3, 5) // 3 is R2's key (already registered), 5 is fresh
	nonce := vf.Bytes("inner-nonce", 40)
	vf.Assume(len(nonce) >= 1)
	sigKey := vf.Int("inner-signature-key", 3, 5)
	info := &types.FetchNodeCredentialsInfo{CertificatePublicKeyPkix: vf.Pkix(newKey), CertificatePublicKeyType: types.KEYTYPE_ED25519,
		Nonce: nonce, EncryptionPublicKeyBytes: vf.X25519Pub(5), EncryptionPublicKeyType: types.KEYTYPE_X25519,
		NotBefore: timestamppb.New(t0.Add(-time.Hour)), NotAfter: timestamppb.New(t0.Add(time.Hour))}
	bundle, err := proto.Marshal(info)
	if err != nil {
		panic(err)
	}
	fetchReq := &types.FetchNodeCredentialsRequest{Bundle: bundle, BundleSignature: vf.SigBy(sigKey, bundle)}

	// who encrypted the payload
	source := vf.Int("payload-key", 0, 4)
	sealer := []vfParty{r1, r1prev, r2, m, stranger}[source]
	payload, err := nodeenrollment.EncryptMessage(ctx, fetchReq, sealer.creds())
	if err != nil {
		panic(err)
	}
	// how the request identifies the node
	named := vf.Int("named-certificate-key", 2, 5) // 5: no such record
	req := &types.RotateNodeCredentialsRequest{CertificatePublicKeyPkix: vf.Pkix(named), EncryptedFetchNodeCredentialsRequest: payload}
	switch vf.Int("request-names-node-id", 0, 2) {
	case 1:
		req.NodeId = "n1"
	case 2:
		req.NodeId = "n9" // a node ID under which nothing is stored
		if nidSt != nil {
			nidSt.EmptyAsSet = vf.Bool("storage-reports-an-unknown-node-id-as-an-empty-set")
		}
	}
	byNodeId := req.NodeId != ""
	snap := inner.Snapshot()
	// whatever state option the caller passes, the old record's state is what carries over (the call without any
	// option is the honest-history harness)
	resp, err := RotateNodeCredentials(ctx, st, req, nodeenrollment.WithState(vfs.State("callers-own-state")))
	vf.Assume(vf.TimeLE(vf.Now(), t0.Add(time.Second)))

	// the stored record (if any) that the payload authenticates against, within the identified node's records
	useSet := byNodeId && loader
	inScope := func(p vfParty) bool {
		if useSet {
			return req.NodeId == "n1" && (p.cert == 2 || p.cert == 3)
		}
		return p.cert == named
	}
	var auth *vfParty
	switch {
	case source == 0 && inScope(r1):
		auth = &r1
	case source == 1 && hasPrev && inScope(r1):
		auth = &r1
	case source == 2 && inScope(r2):
		auth = &r2
	case source == 3 && inScope(m):
		auth = &m
	}
	innerOK := vf.And(vf.And(sigKey == newKey, len(nonce) == nodeenrollment.NonceSize), newKey == 5)
	if err == nil && resp != nil {
		vf.Reach("rotated")
		vf.Assert("payload-authenticated-by-a-record-of-the-identified-node", auth != nil)
		vf.Assert("inner-request-valid-fresh-key-and-plain-nonce", innerOK)
		newId, _ := nodeenrollment.KeyIdFromPkix(vf.Pkix(newKey))
		newRec, lerr := types.LoadNodeInformation(ctx, inner, newId)
		vf.Assert("new-key-registered", lerr == nil)
		if auth != nil && lerr == nil {
			want := map[int]string{2: r1state, 3: "state-2", 4: "state-m"}[auth.cert]
			vf.Assert("state-carried-over-from-the-authenticating-record", vfs.StateValue(newRec.State) == want)
			out := new(types.FetchNodeCredentialsResponse)
			vf.Assert("reply-opens-under-the-authenticating-records-current-key", nodeenrollment.DecryptMessage(ctx, resp.EncryptedFetchNodeCredentialsResponse, auth.creds(), out) == nil)
			for _, other := range []vfParty{r1, r2, m, r1prev} {
				if other.cert != auth.cert {
					vf.Assert("reply-closed-to-every-other-key", nodeenrollment.DecryptMessage(ctx, resp.EncryptedFetchNodeCredentialsResponse, other.creds(), new(types.FetchNodeCredentialsResponse)) != nil)
				}
			}
			newNode := &types.NodeCredentials{CertificatePublicKeyPkix: vf.Pkix(newKey), EncryptionPrivateKeyBytes: vf.X25519Priv(5), EncryptionPrivateKeyType: types.KEYTYPE_X25519,
				ServerEncryptionPublicKeyBytes: out.ServerEncryptionPublicKeyBytes, ServerEncryptionPublicKeyType: out.ServerEncryptionPublicKeyType}
			vf.Assert("credentials-open-under-the-new-key", nodeenrollment.DecryptMessage(ctx, out.EncryptedNodeCredentials, newNode, new(types.NodeCredentials)) == nil)
			vf.Assert("credentials-closed-to-the-old-key", nodeenrollment.DecryptMessage(ctx, out.EncryptedNodeCredentials, auth.creds(), new(types.NodeCredentials)) != nil)
		}
		vf.Assert("exactly-one-new-record", inner.Count(vfs.KindNode) == 4)
	} else {
		vf.Reach("refused")
		vf.Assert("refusal-is-an-error", err != nil)
		vf.Assert("authenticated-valid-rotation-is-honoured", vf.Not(vf.And(auth != nil, innerOK)))
		vf.Assert("refusal-registers-nothing-and-changes-nothing", inner.KindSameAs(vfs.KindNode, snap))
	}
}
