//go:build verif

package rotation

import (
	"context"
	"crypto/rand"
	"crypto/x509"
	"crypto/x509/pkix"
	"math/big"
	"time"

	"github.com/hashicorp/nodeenrollment"
	"github.com/hashicorp/nodeenrollment/registration"
	"github.com/hashicorp/nodeenrollment/types"
	"github.com/hashicorp/nodeenrollment/zzverif/vf"
	"google.golang.org/protobuf/types/known/structpb"
	"google.golang.org/protobuf/types/known/timestamppb"
)

func init() { VfHarnesses["VerifC10Rotate"] = VerifC10Rotate }

func vfStoreRoots(ctx context.Context, st *vfStorage, t0 time.Time) {
	mk := func(id string, k int) *types.RootCertificate {
		tmpl := &x509.Certificate{SubjectKeyId: vf.Pkix(k), Subject: pkix.Name{CommonName: "root"}, SerialNumber: big.NewInt(1),
			NotBefore: t0.Add(-time.Hour), NotAfter: t0.Add(time.Hour), IsCA: true, BasicConstraintsValid: true}
		priv, _ := x509.ParsePKCS8PrivateKey(vf.Pkcs8(k))
		pub, _ := x509.ParsePKIXPublicKey(vf.Pkix(k))
		der, err := x509.CreateCertificate(rand.Reader, tmpl, tmpl, pub, priv)
		if err != nil {
			panic(err)
		}
		return &types.RootCertificate{Id: id, PublicKeyPkix: vf.Pkix(k), PrivateKeyPkcs8: vf.Pkcs8(k), PrivateKeyType: types.KEYTYPE_ED25519,
			CertificateDer: der, NotBefore: timestamppb.New(tmpl.NotBefore), NotAfter: timestamppb.New(tmpl.NotAfter)}
	}
	if err := (&types.RootCertificates{Id: nodeenrollment.RootsMessageId, Current: mk("current", 0), Next: mk("next", 1)}).Store(ctx, st); err != nil {
		panic(err)
	}
}

func (s *vfStorage) count(kind int) int {
	n := 0
	for _, e := range s.entries {
		if e.kind == kind {
			n++
		}
	}
	return n
}

// vfEnroll runs the library's own honest node-led enrollment end to end (this is the C04 flow).
var vfDeadline time.Time

// vfOK: every honest step must succeed, provided the clock stayed inside the scenario budget.
func vfOK(step string, err error) {
	vf.Assume(vf.TimeLE(vf.Now(), vfDeadline))
	vf.Assert("honest-step-succeeds:"+step, err == nil)
	vf.Assume(err == nil)
}

func vfEnroll(ctx context.Context, server *vfStorage, state *structpb.Struct) *types.NodeCredentials {
	nodeSt := &vfStorage{}
	creds, err := types.NewNodeCredentials(ctx, nodeSt)
	vfOK("new-node-credentials", err)
	req, err := creds.CreateFetchNodeCredentialsRequest(ctx)
	vfOK("create-fetch-request", err)
	_, err = registration.AuthorizeNode(ctx, server, req, nodeenrollment.WithState(state))
	vfOK("authorize", err)
	resp, err := registration.FetchNodeCredentials(ctx, server, req)
	vfOK("fetch", err)
	_, err = creds.HandleFetchNodeCredentialsResponse(ctx, nodeSt, resp)
	vfOK("handle-response", err)
	return creds
}

// C10: a rotation request is honoured only if its payload was encrypted under the shared key of the
// node it names; everything else registers nothing.
func VerifC10Rotate() {
	ctx := context.Background()
	st := &vfStorage{}
	t0 := vf.Now()
	vfDeadline = t0.Add(time.Second)
	vfStoreRoots(ctx, st, t0)
	nodeA := vfEnroll(ctx, st, nil)
	nodeB := vfEnroll(ctx, st, nil)
	vf.Assert("two-nodes-enrolled", st.count(1) == 2)

	// node A wants to rotate: new credentials, fetch request for them, encrypted under SOME node's shared key
	newCreds, err := types.NewNodeCredentials(ctx, &vfStorage{})
	vfOK("new-credentials-for-rotation", err)
	fetchReq, err := newCreds.CreateFetchNodeCredentialsRequest(ctx)
	vfOK("fetch-request-for-rotation", err)
	useOwnKey := vf.Bool("payload-encrypted-under-named-nodes-key")
	src := nodeB
	if useOwnKey {
		src = nodeA
	}
	payload, err := nodeenrollment.EncryptMessage(ctx, fetchReq, src)
	vfOK("encrypt-payload", err)
	before := st.count(1)
	resp, err := RotateNodeCredentials(ctx, st, &types.RotateNodeCredentialsRequest{
		CertificatePublicKeyPkix: nodeA.CertificatePublicKeyPkix, EncryptedFetchNodeCredentialsRequest: payload})
	vf.Assume(vf.TimeLE(vf.Now(), t0.Add(time.Second)))
	if err == nil && resp != nil {
		vf.Reach("rotated")
		vf.Assert("honoured-only-under-the-named-nodes-key", useOwnKey)
		vf.Assert("one-new-record", st.count(1) == before+1)
		// the reply opens under A's current shared key, the credentials inside under the new key
		inner := new(types.FetchNodeCredentialsResponse)
		vf.Assert("reply-opens-with-old-key", nodeenrollment.DecryptMessage(ctx, resp.EncryptedFetchNodeCredentialsResponse, nodeA, inner) == nil)
		vf.Assert("reply-closed-to-other-node", nodeenrollment.DecryptMessage(ctx, resp.EncryptedFetchNodeCredentialsResponse, nodeB, new(types.FetchNodeCredentialsResponse)) != nil)
		_, herr := newCreds.HandleFetchNodeCredentialsResponse(ctx, &vfStorage{}, inner)
		vf.Assert("new-credentials-usable", herr == nil)
		// replay of the same payload is refused
		_, rerr := RotateNodeCredentials(ctx, st, &types.RotateNodeCredentialsRequest{
			CertificatePublicKeyPkix: nodeA.CertificatePublicKeyPkix, EncryptedFetchNodeCredentialsRequest: payload})
		vf.Assert("replay-refused", rerr != nil)
	} else {
		vf.Reach("refused")
		vf.Assert("own-key-request-is-honoured", vf.Not(useOwnKey))
		vf.Assert("refusal-registers-nothing", st.count(1) == before)
	}
}
