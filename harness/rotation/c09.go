//go:build verif

package rotation

import (
	"context"
	"time"

	"github.com/hashicorp/nodeenrollment"
	"github.com/hashicorp/nodeenrollment/types"
	"github.com/hashicorp/nodeenrollment/zzverif/vf"
	"github.com/hashicorp/nodeenrollment/zzverif/vfs"
)

func init() { VfHarnesses["VerifC09Step"] = VerifC09Step }

// C09, obligation (2): INV is inductive under one real call made at most Delta after the previous one,
// the start-over branch is unreachable, and every change is "old next becomes current".
func VerifC09Step() {
	ctx := context.Background()
	st := &vfs.Storage{}
	t0 := vf.Now()
	life := vf.Dur("lifetime", 1000000000, 400000000000000000)
	nb := vf.Dur("nbskew", -1000000000000000, 0)
	na := vf.Dur("naskew", 0, 1000000000000000)
	S := life + na
	delta := vf.Dur("delta", 1, 400000000000000000) // server cadence
	const callBudget = 100 * time.Millisecond
	vf.Assume(delta < S)
	tl := vf.TimeFromNow("tlast", t0) // instant of the previous rotation call
	vf.Assume(vf.And(vf.TimeLE(tl, t0), vf.TimeLE(t0.Add(callBudget), tl.Add(delta))))
	cNB, cNA := vf.TimeFromNow("cNB", t0), vf.TimeFromNow("cNA", t0)
	nNB, nNA := vf.TimeFromNow("nNB", t0), vf.TimeFromNow("nNA", t0)
	inv := func(cNB, cNA, nNB, nNA, at time.Time) bool {
		return vf.And(vf.And(vf.TimeLE(cNB, at), vf.TimeLE(at, cNA)),
			vf.And(vf.TimeLE(nNB, cNA),
				vf.And(vf.And(nNA.Sub(nNB) == S-nb, cNA.Sub(cNB) == S-nb), vf.TimeLE(at.Add(S), nNA))))
	}
	vf.Assume(inv(cNB, cNA, nNB, nNA, tl))
	pre := &types.RootCertificates{Id: nodeenrollment.RootsMessageId, Current: vfRoot("current", 0, cNB, cNA), Next: vfRoot("next", 1, nNB, nNA)}
	if err := pre.Store(ctx, st); err != nil {
		panic(err)
	}
	out, err := RotateRootCertificates(ctx, st, nodeenrollment.WithCertificateLifetime(life),
		nodeenrollment.WithNotBeforeClockSkew(nb), nodeenrollment.WithNotAfterClockSkew(na))
	vf.Assert("succeeds", err == nil)
	if err != nil {
		return
	}
	now := vf.ClockReading(1)
	vf.Reach("returned")
	vf.Assume(vf.TimeLE(vf.Now(), t0.Add(callBudget)))
	keptCur := vf.EqBytes(out.Current.PublicKeyPkix, vf.Pkix(0))
	keptNext := vf.EqBytes(out.Next.PublicKeyPkix, vf.Pkix(1))
	promoted := vf.EqBytes(out.Current.PublicKeyPkix, vf.Pkix(1))
	vf.Assert("trust-never-reset", vf.Or(vf.And(keptCur, keptNext), promoted))
	vf.Assert("invariant-preserved", inv(out.Current.NotBefore.AsTime(), out.Current.NotAfter.AsTime(),
		out.Next.NotBefore.AsTime(), out.Next.NotAfter.AsTime(), now))
	if promoted {
		vf.Reach("promoted")
	} else {
		vf.Reach("unchanged")
	}
}
