//go:build verif

package rotation

import (
	"context"
	"crypto/x509"
	"time"

	"github.com/hashicorp/nodeenrollment"
	"github.com/hashicorp/nodeenrollment/registration"
	"github.com/hashicorp/nodeenrollment/types"
	"github.com/hashicorp/nodeenrollment/zzverif/vf"
	"github.com/hashicorp/nodeenrollment/zzverif/vfs"
	"google.golang.org/protobuf/proto"
	"google.golang.org/protobuf/types/known/timestamppb"
)

func init() {
	VfHarnesses["VerifC09NodeLemma"] = VerifC09NodeLemma
	VfHarnesses["VerifC09Base"] = VerifC09Base
}

// C09, obligation (1): from empty storage the first rotation call establishes the invariant INV at that instant.
func VerifC09Base() {
	ctx := context.Background()
	st := &vfs.Storage{}
	t0 := vf.Now()
	life := vf.Dur("lifetime", 1000000000, 400000000000000000)
	nb := vf.Dur("nbskew", -1000000000000000, 0)
	na := vf.Dur("naskew", 0, 1000000000000000)
	S := life + na
	out, err := RotateRootCertificates(ctx, st, nodeenrollment.WithCertificateLifetime(life), nodeenrollment.WithNotBeforeClockSkew(nb), nodeenrollment.WithNotAfterClockSkew(na))
	vf.Assert("succeeds", err == nil)
	if err != nil {
		return
	}
	end := vf.Now()
	vf.Assume(vf.TimeLE(end, t0.Add(100*time.Millisecond)))
	cNB, cNA := out.Current.NotBefore.AsTime(), out.Current.NotAfter.AsTime()
	nNB, nNA := out.Next.NotBefore.AsTime(), out.Next.NotAfter.AsTime()
	vf.Assert("current-valid-now", vf.And(vf.TimeLE(cNB, end), vf.TimeLE(t0, cNA)))
	vf.Assert("next-begins-before-current-ends", vf.TimeLE(nNB, cNA))
	vf.Assert("window-lengths", vf.And(nNA.Sub(nNB) == S-nb, cNA.Sub(cNB) == S-nb))
	vf.Assert("next-outlives-one-full-span", vf.TimeLE(t0.Add(S), nNA))
	vf.Reach("end")
}

// C09 (3b): the server rotates at a cadence <= delta from an arbitrary state satisfying INV; a node enrolls through the
// real authorization code right after some call and receives one certificate per server root; at any instant less
// than R = (S-delta)/2 - |nb| later, one of its two certificates is inside its validity, issued by a root that is
// itself valid and that the server still holds.
func VerifC09NodeLemma() {
	ctx := context.Background()
	defer func() { vfC09Calls = 2 }()
	st := &vfs.Storage{}
	life := vf.Dur("lifetime", 3600000000000, 400000000000000000)
	nb := vf.Dur("nbskew", -1000000000000000, 0)
	na := vf.Dur("naskew", 0, 1000000000000000)
	S := life + na
	delta := vf.Dur("delta", 2000000000, 400000000000000000)
	vf.Assume(delta < S)
	const budget = time.Second // everything that is not an explicit Sleep takes less than this in total
	t0 := vf.Now()
	opts := []nodeenrollment.Option{nodeenrollment.WithCertificateLifetime(life), nodeenrollment.WithNotBeforeClockSkew(nb), nodeenrollment.WithNotAfterClockSkew(na)}
	slept := time.Duration(0)
	rotate := func() *types.RootCertificates {
		r, err := RotateRootCertificates(ctx, st, opts...)
		vf.Assume(vf.TimeLE(vf.Now(), t0.Add(slept+budget)))
		vf.Assert("rotation-succeeds", err == nil)
		vf.Assume(err == nil)
		return r
	}
	wait := func(label string, max time.Duration) {
		d := vf.Dur(label, 0, 400000000000000000)
		vf.Assume(d <= max)
		vf.Sleep(d)
		slept += d
	}
	// arbitrary reachable server state: any stored pair satisfying INV at the (past) instant of the previous call
	tl := vf.TimeFromNow("tlast", t0)
	vf.Assume(vf.And(vf.TimeLE(tl, t0), vf.TimeLE(t0.Add(budget), tl.Add(delta))))
	cNB, cNA := vf.TimeFromNow("cNB", t0), vf.TimeFromNow("cNA", t0)
	nNB, nNA := vf.TimeFromNow("nNB", t0), vf.TimeFromNow("nNA", t0)
	vf.Assume(vf.And(vf.And(vf.TimeLE(cNB, tl), vf.TimeLE(tl, cNA)),
		vf.And(vf.TimeLE(nNB, cNA), vf.And(vf.And(nNA.Sub(nNB) == S-nb, cNA.Sub(cNB) == S-nb), vf.TimeLE(tl.Add(S), nNA)))))
	cur, _ := vfs.MkRoot("current", 0, cNB, cNA)
	next, _ := vfs.MkRoot("next", 1, nNB, nNA)
	if err := (&types.RootCertificates{Id: nodeenrollment.RootsMessageId, Current: cur, Next: next}).Store(ctx, st); err != nil {
		panic(err)
	}
	server := rotate()
	// the node enrolls now, through the real authorization code: one certificate per current server root
	te := vf.Now()
	info := &types.FetchNodeCredentialsInfo{CertificatePublicKeyPkix: vf.Pkix(2), CertificatePublicKeyType: types.KEYTYPE_ED25519,
		Nonce: []byte("a-node-led-registration-nonce-32"), EncryptionPublicKeyBytes: vf.X25519Pub(0), EncryptionPublicKeyType: types.KEYTYPE_X25519,
		NotBefore: timestamppb.New(te.Add(-time.Hour)), NotAfter: timestamppb.New(te.Add(time.Hour))}
	bundle, err := proto.Marshal(info)
	if err != nil {
		panic(err)
	}
	rec, err := registration.AuthorizeNode(ctx, st, &types.FetchNodeCredentialsRequest{Bundle: bundle, BundleSignature: vf.SigBy(2, bundle)})
	vf.Assume(vf.TimeLE(vf.Now(), t0.Add(slept+budget)))
	vf.Assert("enrollment-succeeds", err == nil)
	if err != nil {
		return
	}
	vf.Assert("one-certificate-per-root", len(rec.CertificateBundles) == 2)
	type chain struct {
		leafNB, leafNA, caNB, caNA time.Time
		caKey                      []byte
	}
	var chains []chain
	for i, root := range []*types.RootCertificate{server.Current, server.Next} {
		leaf, err := x509.ParseCertificate(rec.CertificateBundles[i].CertificateDer)
		if err != nil {
			panic(err)
		}
		chains = append(chains, chain{leaf.NotBefore, leaf.NotAfter, root.NotBefore.AsTime(), root.NotAfter.AsTime(), root.PublicKeyPkix})
	}
	// up to two (thorough tier: four) more server calls, each at most delta after the previous one
	calls := vf.Int("calls-after-enrollment", 0, vfC09Calls)
	for k := 0; k < calls; k++ {
		wait("gap", delta-budget)
		server = rotate()
	}
	wait("tail", delta-budget)
	q := vf.Now()
	vf.Assume(vf.TimeLE(q, t0.Add(slept+budget)))
	R := (S-delta)/2 + nb
	usable := func(c chain) bool {
		held := vf.Or(vf.EqBytes(c.caKey, server.Current.PublicKeyPkix), vf.EqBytes(c.caKey, server.Next.PublicKeyPkix))
		return vf.And(held, vf.And(vf.And(vf.TimeLE(c.leafNB, q), vf.TimeLE(q, c.leafNA)), vf.And(vf.TimeLE(c.caNB, q), vf.TimeLE(q, c.caNA))))
	}
	trusted := vf.Or(usable(chains[0]), usable(chains[1]))
	vf.Assert("node-still-trusted", vf.Implies(vf.TimeLT(q, te.Add(R)), trusted))
	// tightness: with twice the re-rotation bound the node can be left without a usable chain
	vf.Sat("bound-is-tight-at-2R", vf.And(vf.TimeLT(q, te.Add(2*R)), vf.Not(trusted)))
	vf.Reach("end")
}

var vfC09Calls = 2

// VerifC09NodeLemma4 is the node lemma over up to four server calls after the enrollment (thorough tier).
func VerifC09NodeLemma4() { vfC09Calls = 4; VerifC09NodeLemma() }

func init() { VfHarnesses["VerifC09NodeLemma4"] = VerifC09NodeLemma4 }
