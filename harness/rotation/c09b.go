//go:build verif

package rotation

import (
	"context"
	"time"

	"github.com/hashicorp/nodeenrollment"
	"github.com/hashicorp/nodeenrollment/types"
	"github.com/hashicorp/nodeenrollment/zzverif/vf"
	"github.com/hashicorp/nodeenrollment/zzverif/vfs"
)

func init() { VfHarnesses["VerifC09NodeLemma"] = VerifC09NodeLemma }

// C09 (3b): server rotates at a cadence <= delta; a node enrolls (real authorize path) right after some call;
// at any instant less than R = (S-delta)/2 - |nb| later, one of its two chains is valid and issued by a root the
// server currently holds.
func VerifC09NodeLemma() {
	ctx := context.Background()
	st := &vfs.Storage{}
	life := vf.Dur("lifetime", 3600000000000, 400000000000000000)
	nb := vf.Dur("nbskew", -1000000000000000, 0)
	na := vf.Dur("naskew", 0, 1000000000000000)
	S := life + na
	delta := vf.Dur("delta", 2000000000, 400000000000000000)
	vf.Assume(delta < S)
	const budget = time.Second // everything that is not an explicit Sleep takes less than this in total
	t0 := vf.Now()
	opts := []nodeenrollment.Option{nodeenrollment.WithCertificateLifetime(life), nodeenrollment.WithNotBeforeClockSkew(nb), nodeenrollment.WithNotAfterClockSkew(na)}
	slept := time.Duration(0)
	rotate := func() *types.RootCertificates {
		r, err := RotateRootCertificates(ctx, st, opts...)
		vf.Assume(vf.TimeLE(vf.Now(), t0.Add(slept+budget)))
		vf.Assert("rotation-succeeds", err == nil)
		vf.Assume(err == nil)
		return r
	}
	wait := func(label string, max time.Duration) {
		d := vf.Dur(label, 0, 400000000000000000)
		vf.Assume(d <= max)
		vf.Sleep(d)
		slept += d
	}
	// arbitrary reachable server state: any stored pair satisfying INV at the (past) instant of the previous call
	tl := vf.TimeFromNow("tlast", t0)
	vf.Assume(vf.And(vf.TimeLE(tl, t0), vf.TimeLE(t0.Add(budget), tl.Add(delta))))
	cNB, cNA := vf.TimeFromNow("cNB", t0), vf.TimeFromNow("cNA", t0)
	nNB, nNA := vf.TimeFromNow("nNB", t0), vf.TimeFromNow("nNA", t0)
	vf.Assume(vf.And(vf.And(vf.TimeLE(cNB, tl), vf.TimeLE(tl, cNA)),
		vf.And(vf.TimeLE(nNB, cNA), vf.And(vf.And(nNA.Sub(nNB) == S-nb, cNA.Sub(cNB) == S-nb), vf.TimeLE(tl.Add(S), nNA)))))
	pre := &types.RootCertificates{Id: nodeenrollment.RootsMessageId, Current: vfRoot("current", 0, cNB, cNA), Next: vfRoot("next", 1, nNB, nNA)}
	if err := pre.Store(ctx, st); err != nil {
		panic(err)
	}
	server := rotate()
	// the node enrolls now: it receives one chain per current server root, valid as long as that root
	te := vf.Now()
	nodeCur, nodeNext := server.Current, server.Next
	// up to two more server calls, each at most delta after the previous one
	calls := vf.Int("calls-after-enrollment", 0, 2)
	for k := 0; k < calls; k++ {
		wait("gap", delta-budget)
		server = rotate()
	}
	wait("tail", delta-budget)
	q := vf.Now()
	vf.Assume(vf.TimeLE(q, t0.Add(slept+budget)))
	R := (S-delta)/2 + nb
	if vf.Bool("double-the-bound") {
		R = 2 * R
	}
	vf.Assume(vf.TimeLT(q, te.Add(R)))
	held := func(r *types.RootCertificate) bool {
		return vf.Or(vf.EqBytes(r.PublicKeyPkix, server.Current.PublicKeyPkix), vf.EqBytes(r.PublicKeyPkix, server.Next.PublicKeyPkix))
	}
	validAt := func(r *types.RootCertificate) bool {
		return vf.And(vf.TimeLE(r.NotBefore.AsTime(), q), vf.TimeLE(q, r.NotAfter.AsTime()))
	}
	vf.Assert("node-still-trusted", vf.Or(vf.And(held(nodeCur), validAt(nodeCur)), vf.And(held(nodeNext), validAt(nodeNext))))
	vf.Reach("end")
}
