//go:build verif

package types

import (
	"context"

	"github.com/hashicorp/nodeenrollment"
	"github.com/hashicorp/nodeenrollment/zzverif/vf"
)

func init() { VfHarnesses["VerifC11KeyAgreement"] = VerifC11KeyAgreement }

// C11 (key agreement, both directions): the node side (NodeCredentials) and the server side (NodeInformation) of one
// X25519 agreement derive the same secret and key ID. A message from either side opens on the other side exactly
// when the receiver's current key material - or the key pair it recorded as previous through
// SetPreviousEncryptionKey, whatever its key ID - matches the sender's; then it yields the original message.
func VerifC11KeyAgreement() {
	ctx := context.Background()
	pkcs := func(k int) []byte { return vf.X25519Priv(k) }
	// sender-side choice of key material (universe indices)
	nCert, nPriv, nSrv := vf.Int("node-cert-key", 2, 3), vf.Int("node-enc-key", 0, 1), vf.Int("node-view-of-server-key", 4, 5)
	node := &NodeCredentials{CertificatePublicKeyPkix: vf.Pkix(nCert), EncryptionPrivateKeyBytes: pkcs(nPriv), EncryptionPrivateKeyType: KEYTYPE_X25519,
		ServerEncryptionPublicKeyBytes: vf.X25519Pub(nSrv), ServerEncryptionPublicKeyType: KEYTYPE_X25519}
	sCert, sNode, sPriv := vf.Int("server-cert-key", 2, 3), vf.Int("server-view-of-node-key", 0, 1), vf.Int("server-enc-key", 4, 5)
	server := &NodeInformation{CertificatePublicKeyPkix: vf.Pkix(sCert), EncryptionPublicKeyBytes: vf.X25519Pub(sNode), EncryptionPublicKeyType: KEYTYPE_X25519,
		ServerEncryptionPrivateKeyBytes: pkcs(sPriv), ServerEncryptionPrivateKeyType: KEYTYPE_X25519}
	current := vf.And(nCert == sCert, vf.And(nPriv == sNode, nSrv == sPriv))
	// the receiver may remember a previous key pair (recorded by the library's own SetPreviousEncryptionKey)
	prevMatch := false
	toServer := vf.Bool("node-sends-to-server")
	if vf.Bool("receiver-remembers-previous-key") {
		pCert, pNode, pSrv := vf.Int("previous-cert-key", 2, 3), vf.Int("previous-node-enc-key", 0, 1), vf.Int("previous-server-enc-key", 4, 5)
		if vf.Bool("an-even-older-key-pair-was-recorded-before") { // recording replaces whatever was remembered before, key ID included
			oCert := vf.Int("older-cert-key", 2, 3)
			if toServer {
				older := &NodeInformation{CertificatePublicKeyPkix: vf.Pkix(oCert), EncryptionPublicKeyBytes: vf.X25519Pub(1), EncryptionPublicKeyType: KEYTYPE_X25519,
					ServerEncryptionPrivateKeyBytes: pkcs(4), ServerEncryptionPrivateKeyType: KEYTYPE_X25519}
				vf.Assert("older-key-recorded", server.SetPreviousEncryptionKey(older) == nil)
			} else {
				older := &NodeCredentials{CertificatePublicKeyPkix: vf.Pkix(oCert), EncryptionPrivateKeyBytes: pkcs(1), EncryptionPrivateKeyType: KEYTYPE_X25519,
					ServerEncryptionPublicKeyBytes: vf.X25519Pub(4), ServerEncryptionPublicKeyType: KEYTYPE_X25519}
				vf.Assert("older-key-recorded", node.SetPreviousEncryptionKey(older) == nil)
			}
		}
		if toServer {
			old := &NodeInformation{CertificatePublicKeyPkix: vf.Pkix(pCert), EncryptionPublicKeyBytes: vf.X25519Pub(pNode), EncryptionPublicKeyType: KEYTYPE_X25519,
				ServerEncryptionPrivateKeyBytes: pkcs(pSrv), ServerEncryptionPrivateKeyType: KEYTYPE_X25519}
			vf.Assert("previous-key-recorded", server.SetPreviousEncryptionKey(old) == nil)
		} else {
			old := &NodeCredentials{CertificatePublicKeyPkix: vf.Pkix(pCert), EncryptionPrivateKeyBytes: pkcs(pNode), EncryptionPrivateKeyType: KEYTYPE_X25519,
				ServerEncryptionPublicKeyBytes: vf.X25519Pub(pSrv), ServerEncryptionPublicKeyType: KEYTYPE_X25519}
			vf.Assert("previous-key-recorded", node.SetPreviousEncryptionKey(old) == nil)
		}
		if toServer {
			prevMatch = vf.And(nCert == pCert, vf.And(nPriv == pNode, nSrv == pSrv))
		} else {
			prevMatch = vf.And(sCert == pCert, vf.And(sNode == pNode, sPriv == pSrv))
		}
	}
	// both sides derive the same secret from matching material
	nid, nkey, nerr := node.X25519EncryptionKey()
	sid, skey, serr := server.X25519EncryptionKey()
	vf.Assert("both-sides-derive-a-key", vf.And(nerr == nil, serr == nil))
	vf.Assert("same-material-same-secret-and-id", vf.Implies(current, vf.And(nid == sid, vf.EqBytes(nkey, skey))))
	vf.Assert("different-material-different-secret-or-id", vf.Implies(vf.Not(current), vf.Not(vf.And(nid == sid, vf.EqBytes(nkey, skey)))))

	msg := &FetchNodeCredentialsRequest{Bundle: vf.Bytes("message-bundle", 24), BundleSignature: vf.Bytes("message-signature", 8)}
	var sender, receiver nodeenrollment.X25519KeyProducer = node, server
	if !toServer {
		sender, receiver = server, node
	}
	ct, err := nodeenrollment.EncryptMessage(ctx, msg, sender)
	vf.Assert("encrypt-ok", err == nil)
	out := new(FetchNodeCredentialsRequest)
	derr := nodeenrollment.DecryptMessage(ctx, ct, receiver, out)
	if derr == nil {
		vf.Reach("opened")
		vf.Assert("opens-only-under-matching-current-or-previous-key", vf.Or(current, prevMatch))
		vf.Assert("message-intact", vf.And(vf.EqBytes(out.Bundle, msg.Bundle), vf.EqBytes(out.BundleSignature, msg.BundleSignature)))
	} else {
		vf.Reach("refused")
		vf.Assert("matching-key-material-always-opens", vf.Not(vf.Or(current, prevMatch)))
	}
}
