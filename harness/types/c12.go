//go:build verif

package types

import (
	"context"
	"time"

	wrapping "github.com/hashicorp/go-kms-wrapping/v2"
	"github.com/hashicorp/go-kms-wrapping/v2/aead"
	"github.com/hashicorp/nodeenrollment"
	"github.com/hashicorp/nodeenrollment/zzverif/vf"
	"google.golang.org/protobuf/proto"
	"google.golang.org/protobuf/types/known/structpb"
	"google.golang.org/protobuf/types/known/timestamppb"
)

var VfHarnesses = map[string]func(){
	"VerifC12NodeInfo": VerifC12NodeInfo, "VerifC12NodeCreds": VerifC12NodeCreds, "VerifC12Roots": VerifC12Roots, "VerifC12Token": VerifC12Token,
}

// vfTStore is a marshal-based Storage like the real back ends, local to this package (package types cannot import
// the shared harness package, which imports types). It keeps the last message handed to Store for the secrecy
// obligation and lets the harness edit stored bytes.
type vfTEntry struct {
	kind, id string
	data     []byte
}
type vfTStore struct {
	entries []vfTEntry
	last    nodeenrollment.MessageWithId
}

func vfTKind(m proto.Message) string {
	switch m.(type) {
	case *NodeInformation:
		return "node"
	case *RootCertificates:
		return "roots"
	case *NodeCredentials:
		return "creds"
	case *ServerLedActivationToken:
		return "token"
	}
	return "?"
}
func (s *vfTStore) Store(ctx context.Context, m nodeenrollment.MessageWithId) error {
	b, err := proto.Marshal(m)
	if err != nil {
		return err
	}
	s.last = m
	k := vfTKind(m)
	for i := range s.entries {
		if s.entries[i].kind == k && s.entries[i].id == m.GetId() {
			s.entries[i].data = b
			return nil
		}
	}
	s.entries = append(s.entries, vfTEntry{k, m.GetId(), b})
	return nil
}
func (s *vfTStore) Load(ctx context.Context, m nodeenrollment.MessageWithId) error {
	k := vfTKind(m)
	for _, e := range s.entries {
		if e.kind == k && e.id == m.GetId() {
			return proto.Unmarshal(e.data, m)
		}
	}
	return nodeenrollment.ErrNotFound
}
func (s *vfTStore) Remove(ctx context.Context, m nodeenrollment.MessageWithId) error { return nil }
func (s *vfTStore) List(ctx context.Context, m proto.Message) ([]string, error)      { return nil, nil }
func (s *vfTStore) put(m nodeenrollment.MessageWithId) {
	if err := s.Store(context.Background(), m); err != nil {
		panic(err)
	}
}

func vfWrapperK(k int) wrapping.Wrapper {
	w := aead.NewWrapper()
	if _, err := w.SetConfig(context.Background(), wrapping.WithKeyId("w1")); err != nil {
		panic(err)
	}
	if err := w.SetAesGcmKeyBytes(vf.X25519Priv(k)); err != nil {
		panic(err)
	}
	return w
}
func vfWrapper() wrapping.Wrapper { return vfWrapperK(7) }

func vfState(v string) *structpb.Struct {
	return &structpb.Struct{Fields: map[string]*structpb.Value{"k": {Kind: &structpb.Value_StringValue{StringValue: v}}}}
}

// vfLoadOpts: which wrapper the loader holds: the same one, none, or a different one.
func vfLoadOpts(which int) []nodeenrollment.Option {
	switch which {
	case 0:
		return []nodeenrollment.Option{nodeenrollment.WithStorageWrapper(vfWrapper())}
	case 1:
		return nil
	}
	return []nodeenrollment.Option{nodeenrollment.WithStorageWrapper(vfWrapperK(6))}
}

// C12 for node records (server side): with a storage wrapper no server encryption private key reaches Storage.Store in
// clear; loading with the same wrapper returns what was stored; loading without or with another wrapper fails; a
// sealed key transplanted into another node's record does not open.
func VerifC12NodeInfo() {
	ctx := context.Background()
	cur, prev := vf.X25519Priv(1), vf.X25519Priv(2)
	rec := &NodeInformation{Id: "node-a", CertificatePublicKeyPkix: vf.Pkix(0), ServerEncryptionPrivateKeyBytes: cur, ServerEncryptionPrivateKeyType: KEYTYPE_X25519,
		EncryptionPublicKeyBytes: vf.X25519Pub(3), EncryptionPublicKeyType: KEYTYPE_X25519}
	hasKey := vf.Bool("has-server-encryption-key") // a record may not carry one (yet): it is still a wrapped record
	if !hasKey {
		rec.ServerEncryptionPrivateKeyBytes = nil
	}
	hasPrev := vf.Bool("has-previous-key")
	if hasPrev {
		rec.PreviousEncryptionKey = &EncryptionKey{KeyId: "old", PrivateKeyPkcs8: prev, PrivateKeyType: KEYTYPE_X25519}
	}
	if vf.Bool("has-state") {
		rec.State = vfState(vf.String("state", 8))
	}
	st := &vfTStore{}
	err := rec.Store(ctx, st, nodeenrollment.WithStorageWrapper(vfWrapper()))
	vf.Assert("store-ok", err == nil)
	if hasKey {
		vf.Assert("caller-record-not-modified", vf.EqBytes(rec.ServerEncryptionPrivateKeyBytes, cur))
	}
	vf.Assert("no-private-key-in-clear", vf.SecretFree(st.last, cur))
	vf.Assert("nodeinfo-previous-private-key-not-in-clear", vf.SecretFree(st.last, prev))
	which := vf.Int("loader-wrapper", 0, 2)
	transplant := hasKey && vf.Bool("sealed-key-transplanted-from-another-record")
	if transplant {
		other := &NodeInformation{Id: "node-b", CertificatePublicKeyPkix: vf.Pkix(1), ServerEncryptionPrivateKeyBytes: vf.X25519Priv(4), ServerEncryptionPrivateKeyType: KEYTYPE_X25519}
		if err := other.Store(ctx, st, nodeenrollment.WithStorageWrapper(vfWrapper())); err != nil {
			panic(err)
		}
		stolen := st.last.(*NodeInformation).ServerEncryptionPrivateKeyBytes
		victim := new(NodeInformation)
		if err := st.Load(ctx, &NodeInformation{Id: "node-a"}); err != nil {
			panic(err)
		}
		victim.Id = "node-a"
		if err := st.Load(ctx, victim); err != nil {
			panic(err)
		}
		victim.ServerEncryptionPrivateKeyBytes = stolen
		st.put(victim)
	}
	got, lerr := LoadNodeInformation(ctx, st, "node-a", vfLoadOpts(which)...)
	if lerr == nil {
		vf.Reach("loaded")
		// a wrapped record always needs a wrapper; which wrapper can only be told from a sealed field, so a record
		// that carries none opens under any wrapper (the library deliberately does not compare wrapper key IDs)
		vf.Assert("loads-only-with-the-same-wrapper", vf.Or(which == 0, vf.And(which == 2, !hasKey)))
		vf.Assert("transplanted-field-does-not-open", !transplant)
		if hasKey {
			vf.Assert("round-trip-private-key", vf.EqBytes(got.ServerEncryptionPrivateKeyBytes, cur))
		}
		vf.Assert("round-trip-public-parts", vf.And(vf.EqBytes(got.CertificatePublicKeyPkix, rec.CertificatePublicKeyPkix), vf.EqBytes(got.EncryptionPublicKeyBytes, rec.EncryptionPublicKeyBytes)))
		if hasPrev {
			vf.Assert("round-trip-previous-key", vf.EqBytes(got.PreviousEncryptionKey.PrivateKeyPkcs8, prev))
		}
	} else {
		vf.Reach("load-refused")
		vf.Assert("same-wrapper-loads", vf.Not(vf.And(which == 0, !transplant)))
		vf.Assert("any-wrapper-opens-a-record-without-sealed-fields", vf.Not(vf.And(which == 2, !hasKey)))
	}
}

// C12 for node credentials (node side): certificate private key, encryption private key and registration nonce.
func VerifC12NodeCreds() {
	ctx := context.Background()
	certPriv, encPriv, nonce, prev := vf.Pkcs8(2), vf.X25519Priv(1), vf.Bytes("registration-nonce", 32), vf.X25519Priv(2)
	creds := &NodeCredentials{Id: string(nodeenrollment.CurrentId), CertificatePublicKeyPkix: vf.Pkix(2), CertificatePrivateKeyPkcs8: certPriv, CertificatePrivateKeyType: KEYTYPE_ED25519,
		EncryptionPrivateKeyBytes: encPriv, EncryptionPrivateKeyType: KEYTYPE_X25519}
	hasNonce := vf.Bool("has-registration-nonce")
	if hasNonce {
		vf.Assume(len(nonce) == nodeenrollment.NonceSize) // a real nonce; a 1-byte value occurs in any byte string by chance
		creds.RegistrationNonce = nonce
	}
	hasPrev := vf.Bool("has-previous-key")
	if hasPrev {
		creds.PreviousEncryptionKey = &EncryptionKey{KeyId: "old", PrivateKeyPkcs8: prev, PrivateKeyType: KEYTYPE_X25519}
	}
	if vf.Bool("has-bundles") {
		creds.CertificateBundles = []*CertificateBundle{{CertificateDer: []byte("leaf"), CaCertificateDer: []byte("ca")}}
	}
	st := &vfTStore{}
	err := creds.Store(ctx, st, nodeenrollment.WithStorageWrapper(vfWrapper()))
	vf.Assert("store-ok", err == nil)
	vf.Assert("certificate-private-key-not-in-clear", vf.SecretFree(st.last, certPriv))
	vf.Assert("encryption-private-key-not-in-clear", vf.SecretFree(st.last, encPriv))
	if hasNonce {
		vf.Assert("registration-nonce-not-in-clear", vf.SecretFree(st.last, nonce))
	}
	vf.Assert("nodecreds-previous-private-key-not-in-clear", vf.SecretFree(st.last, prev))
	which := vf.Int("loader-wrapper", 0, 2)
	// a sealed field of another credentials record (the "next" one, other certificate key) moved into this record
	transplant := vf.Int("transplanted-field", 0, 3)
	if transplant != 0 {
		other := &NodeCredentials{Id: string(nodeenrollment.NextId), CertificatePublicKeyPkix: vf.Pkix(3), CertificatePrivateKeyPkcs8: vf.Pkcs8(3), CertificatePrivateKeyType: KEYTYPE_ED25519,
			EncryptionPrivateKeyBytes: vf.X25519Priv(4), EncryptionPrivateKeyType: KEYTYPE_X25519, RegistrationNonce: []byte("another-registration-nonce-32-by")}
		if err := other.Store(ctx, st, nodeenrollment.WithStorageWrapper(vfWrapper())); err != nil {
			panic(err)
		}
		src := st.last.(*NodeCredentials)
		victim := &NodeCredentials{Id: string(nodeenrollment.CurrentId)}
		if err := st.Load(ctx, victim); err != nil {
			panic(err)
		}
		switch transplant {
		case 1:
			victim.CertificatePrivateKeyPkcs8 = src.CertificatePrivateKeyPkcs8
		case 2:
			victim.EncryptionPrivateKeyBytes = src.EncryptionPrivateKeyBytes
		default:
			victim.RegistrationNonce = src.RegistrationNonce
		}
		st.put(victim)
	}
	got, lerr := LoadNodeCredentials(ctx, st, nodeenrollment.CurrentId, vfLoadOpts(which)...)
	if lerr == nil {
		vf.Reach("loaded")
		vf.Assert("loads-only-with-the-same-wrapper", which == 0)
		vf.Assert("transplanted-field-does-not-open", transplant == 0)
		vf.Assert("round-trip", vf.And(vf.EqBytes(got.CertificatePrivateKeyPkcs8, certPriv), vf.EqBytes(got.EncryptionPrivateKeyBytes, encPriv)))
		if hasNonce {
			vf.Assert("round-trip-nonce", vf.EqBytes(got.RegistrationNonce, nonce))
		} else {
			vf.Assert("round-trip-no-nonce", len(got.RegistrationNonce) == 0)
		}
	} else {
		vf.Reach("load-refused")
		vf.Assert("same-wrapper-loads", vf.Not(vf.And(which == 0, transplant == 0)))
	}
}

// C12 for the root set: both root private keys, with or without application state on the same call.
func VerifC12Roots() {
	ctx := context.Background()
	t0 := vf.Now()
	k0, k1 := vf.Pkcs8(0), vf.Pkcs8(1)
	mk := func(id string, k int, priv []byte) *RootCertificate {
		return &RootCertificate{Id: id, PublicKeyPkix: vf.Pkix(k), PrivateKeyPkcs8: priv, PrivateKeyType: KEYTYPE_ED25519, CertificateDer: []byte("der"),
			NotBefore: timestamppb.New(t0.Add(-time.Hour)), NotAfter: timestamppb.New(t0.Add(time.Hour))}
	}
	roots := &RootCertificates{Id: string(nodeenrollment.RootsMessageId), Current: mk("current", 0, k0), Next: mk("next", 1, k1)}
	opts := []nodeenrollment.Option{nodeenrollment.WithStorageWrapper(vfWrapper())}
	withState := vf.Bool("store-with-state")
	if withState {
		opts = append(opts, nodeenrollment.WithState(vfState(vf.String("state", 8))))
	}
	st := &vfTStore{}
	err := roots.Store(ctx, st, opts...)
	vf.Assert("store-ok", err == nil)
	vf.Assert("current-root-private-key-not-in-clear", vf.SecretFree(st.last, k0))
	vf.Assert("next-root-private-key-not-in-clear", vf.SecretFree(st.last, k1))
	vf.Assert("caller-roots-not-modified", vf.And(vf.EqBytes(roots.Current.PrivateKeyPkcs8, k0), vf.EqBytes(roots.Next.PrivateKeyPkcs8, k1)))
	which := vf.Int("loader-wrapper", 0, 2)
	swap := vf.Bool("sealed-keys-swapped-between-the-two-roots")
	if swap {
		stored := &RootCertificates{Id: string(nodeenrollment.RootsMessageId)}
		if err := st.Load(ctx, stored); err != nil {
			panic(err)
		}
		stored.Current.PrivateKeyPkcs8, stored.Next.PrivateKeyPkcs8 = stored.Next.PrivateKeyPkcs8, stored.Current.PrivateKeyPkcs8
		st.put(stored)
	}
	got, lerr := LoadRootCertificates(ctx, st, vfLoadOpts(which)...)
	if lerr == nil {
		vf.Reach("loaded")
		vf.Assert("loads-only-with-the-same-wrapper", which == 0)
		vf.Assert("transplanted-field-does-not-open", !swap)
		vf.Assert("round-trip", vf.And(vf.EqBytes(got.Current.PrivateKeyPkcs8, k0), vf.EqBytes(got.Next.PrivateKeyPkcs8, k1)))
	} else {
		vf.Reach("load-refused")
		vf.Assert("same-wrapper-loads", vf.Not(vf.And(which == 0, !swap)))
	}
}

// C12 for activation tokens: the creation time is handed to storage only sealed (bound to the token ID).
func VerifC12Token() {
	ctx := context.Background()
	created := vf.Now()
	tok := &ServerLedActivationToken{Id: "token-id", CreationTime: timestamppb.New(created)}
	if vf.Bool("has-state") {
		tok.State = vfState(vf.String("state", 8))
	}
	st := &vfTStore{}
	if vf.Bool("this-token-value-was-stored-before-with-an-earlier-creation-time") {
		tok.CreationTime = timestamppb.New(created.Add(-time.Hour))
		if err := tok.Store(ctx, st, nodeenrollment.WithStorageWrapper(vfWrapper())); err != nil {
			panic(err)
		}
		tok.CreationTime = timestamppb.New(created)
	}
	err := tok.Store(ctx, st, nodeenrollment.WithStorageWrapper(vfWrapper()))
	vf.Assert("store-ok", err == nil)
	stored := st.last.(*ServerLedActivationToken)
	vf.Assert("creation-time-not-in-clear", stored.CreationTime == nil)
	plain, _ := proto.Marshal(timestamppb.New(created))
	vf.Assert("marshaled-creation-time-not-in-clear", vf.SecretFree(stored, plain))
	which := vf.Int("loader-wrapper", 0, 2)
	transplant := vf.Bool("sealed-time-transplanted-from-another-token")
	if transplant {
		other := &ServerLedActivationToken{Id: "other-token", CreationTime: timestamppb.New(created.Add(time.Hour))}
		if err := other.Store(ctx, st, nodeenrollment.WithStorageWrapper(vfWrapper())); err != nil {
			panic(err)
		}
		stolen := st.last.(*ServerLedActivationToken).CreationTimeMarshaled
		victim := &ServerLedActivationToken{Id: "token-id"}
		if err := st.Load(ctx, victim); err != nil {
			panic(err)
		}
		victim.CreationTimeMarshaled = stolen
		st.put(victim)
	}
	got, lerr := LoadServerLedActivationToken(ctx, st, "token-id", vfLoadOpts(which)...)
	if lerr == nil {
		vf.Reach("loaded")
		vf.Assert("loads-only-with-the-same-wrapper", which == 0)
		vf.Assert("transplanted-field-does-not-open", !transplant)
		vf.Assert("round-trip", vf.TimeEq(got.CreationTime.AsTime(), created))
		// the loaded value, given a new creation time, stored again and loaded again: exactly what was stored
		got.CreationTime = timestamppb.New(created.Add(time.Minute))
		vf.Assert("re-store-ok", got.Store(ctx, st, nodeenrollment.WithStorageWrapper(vfWrapper())) == nil)
		vf.Assert("re-stored-creation-time-not-in-clear", st.last.(*ServerLedActivationToken).CreationTime == nil)
		again, aerr := LoadServerLedActivationToken(ctx, st, "token-id", vfLoadOpts(0)...)
		vf.Assert("re-stored-value-loads", aerr == nil)
		if aerr == nil {
			vf.Assert("re-stored-round-trip", vf.TimeEq(again.CreationTime.AsTime(), created.Add(time.Minute)))
		}
	} else {
		vf.Reach("load-refused")
		vf.Assert("same-wrapper-loads", vf.Not(vf.And(which == 0, !transplant)))
	}
}
