//go:build verif

package types

import (
	"context"

	wrapping "github.com/hashicorp/go-kms-wrapping/v2"
	"github.com/hashicorp/go-kms-wrapping/v2/aead"
	"github.com/hashicorp/nodeenrollment"
	"github.com/hashicorp/nodeenrollment/zzverif/vf"
	"google.golang.org/protobuf/proto"
	"google.golang.org/protobuf/types/known/timestamppb"
)

var VfHarnesses = map[string]func(){"VerifC12NodeInfo": VerifC12NodeInfo, "VerifC12Token": VerifC12Token}

// vfRecorder checks everything handed to Storage.Store against the secrets of the run.
type vfRecorder struct {
	secrets [][]byte
	last    nodeenrollment.MessageWithId
	clean   bool
}

func (r *vfRecorder) Store(ctx context.Context, m nodeenrollment.MessageWithId) error {
	r.last = m
	r.clean = vf.SecretFree(m, r.secrets...)
	return nil
}
func (r *vfRecorder) Load(ctx context.Context, m nodeenrollment.MessageWithId) error {
	return nodeenrollment.ErrNotFound
}
func (r *vfRecorder) Remove(ctx context.Context, m nodeenrollment.MessageWithId) error { return nil }
func (r *vfRecorder) List(ctx context.Context, m proto.Message) ([]string, error)     { return nil, nil }

func vfWrapper() wrapping.Wrapper {
	w := aead.NewWrapper()
	if _, err := w.SetConfig(context.Background(), wrapping.WithKeyId("w1")); err != nil {
		panic(err)
	}
	if err := w.SetAesGcmKeyBytes(vf.X25519Priv(7)); err != nil {
		panic(err)
	}
	return w
}

// C12 for node records: with a storage wrapper no private key reaches Storage.Store in clear.
func VerifC12NodeInfo() {
	ctx := context.Background()
	cur, prev := vf.X25519Priv(1), vf.X25519Priv(2)
	rec := &NodeInformation{Id: "node", CertificatePublicKeyPkix: vf.Pkix(0), ServerEncryptionPrivateKeyBytes: cur, ServerEncryptionPrivateKeyType: KEYTYPE_X25519}
	if vf.Bool("has-previous-key") {
		rec.PreviousEncryptionKey = &EncryptionKey{KeyId: "old", PrivateKeyPkcs8: prev, PrivateKeyType: KEYTYPE_X25519}
	}
	st := &vfRecorder{secrets: [][]byte{cur}}
	err := rec.Store(ctx, st, nodeenrollment.WithStorageWrapper(vfWrapper()))
	vf.Assert("store-ok", err == nil)
	vf.Assert("no-private-key-in-clear", st.clean)
	vf.Assert("nodeinfo-previous-private-key-not-in-clear", vf.SecretFree(st.last, prev))
	vf.Reach("end")
}

// C12 for activation tokens: the creation time is handed to storage only sealed.
func VerifC12Token() {
	ctx := context.Background()
	created := timestamppb.New(vf.Now())
	tok := &ServerLedActivationToken{Id: "token-id", CreationTime: created}
	st := &vfRecorder{}
	err := tok.Store(ctx, st, nodeenrollment.WithStorageWrapper(vfWrapper()))
	vf.Assert("store-ok", err == nil)
	stored := st.last.(*ServerLedActivationToken)
	vf.Assert("creation-time-not-in-clear", stored.CreationTime == nil)
	vf.Reach("end")
}
