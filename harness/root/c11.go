//go:build verif

package nodeenrollment

import (
	"context"
	"errors"

	wrapping "github.com/hashicorp/go-kms-wrapping/v2"
	"github.com/hashicorp/nodeenrollment/zzverif/vf"
	"google.golang.org/protobuf/proto"
)

var VfHarnesses = map[string]func(){"VerifC11Arbitrary": VerifC11Arbitrary, "VerifC11RoundTrip": VerifC11RoundTrip, "VerifC11Mutated": VerifC11Mutated}

type vfKeys struct {
	id, prevId   string
	key, prevKey []byte
}

func (k vfKeys) X25519EncryptionKey() (string, []byte, error) { return k.id, k.key, nil }
func (k vfKeys) PreviousX25519EncryptionKey() (string, []byte, error) {
	if k.prevKey == nil {
		return "", nil, errors.New("no previous key")
	}
	return k.prevId, k.prevKey, nil
}

// C11 (crash freedom): no envelope makes DecryptMessage panic or yield a plaintext: a well-formed envelope with an
// arbitrary ciphertext of any length (the envelope itself is long enough whatever the ciphertext), garbage bytes,
// an empty envelope. The AEAD dependency's Decrypt runs from its real SSA.
func VerifC11Arbitrary() {
	key := vf.Bytes("sharedkey", 32)
	vf.Assume(len(key) == 32)
	var ct []byte
	switch vf.Int("envelope-kind", 0, 2) {
	case 0:
		ct, _ = proto.Marshal(&wrapping.BlobInfo{Ciphertext: vf.Bytes("ciphertext", 40), KeyInfo: &wrapping.KeyInfo{KeyId: "a-key-id-that-makes-the-envelope-long-enough"}})
	case 1:
		ct = vf.Garbage("garbage-envelope", 40)
	default:
		ct, _ = proto.Marshal(&wrapping.BlobInfo{Ciphertext: vf.Bytes("ciphertext", 40)})
	}
	var src X25519KeyProducer = vfKeys{id: "kid", key: key}
	if vf.Bool("receiver-has-previous-key") {
		src = vfKeys{id: "kid", key: key, prevId: vf.IfStr(vf.Bool("previous-key-has-the-same-id"), "kid", "old"), prevKey: vf.Bytes("previous-key", 32)}
	}
	err := DecryptMessage(context.Background(), ct, src, new(wrapping.BlobInfo))
	vf.Assert("arbitrary-ciphertext-is-rejected", err != nil)
	vf.Reach("returned")
}

// C11 (binding): a message encrypted under (key, id), for any id including the empty one, opens exactly under the same key and id - as the receiver's
// current key or as the key it recorded as previous, whatever ID that previous key carries - and then yields the
// original message.
func VerifC11RoundTrip() {
	k1 := vf.Bytes("sender-key", 32)
	k2 := vf.Bytes("receiver-key", 32)
	vf.Assume(vf.And(len(k1) == 32, len(k2) == 32))
	id2 := vf.String("receiver-key-id", 8)
	recv := vfKeys{id: id2, key: k2}
	hasPrev := vf.Bool("receiver-has-previous-key")
	if hasPrev {
		recv.prevId, recv.prevKey = vf.String("previous-key-id", 8), vf.Bytes("previous-key", 32)
		vf.Assume(len(recv.prevKey) == 32)
	}
	msg := &wrapping.BlobInfo{Ciphertext: vf.Bytes("payload", 16)}
	sid := vf.String("sender-key-id", 8) // any key ID, the empty one included
	ct, err := EncryptMessage(context.Background(), msg, vfKeys{id: sid, key: k1})
	vf.Assert("encrypt-ok", err == nil)
	out := new(wrapping.BlobInfo)
	err = DecryptMessage(context.Background(), ct, recv, out)
	same := vf.And(vf.EqBytes(k1, k2), id2 == sid)
	if hasPrev {
		same = vf.Or(same, vf.And(vf.EqBytes(k1, recv.prevKey), recv.prevId == sid))
	}
	if err == nil {
		vf.Reach("decrypted")
		vf.Assert("only-with-same-key-and-id", same)
		vf.Assert("plaintext-intact", vf.EqBytes(out.Ciphertext, msg.Ciphertext))
	} else {
		vf.Reach("refused")
		vf.Assert("refused-only-if-different", vf.Not(same))
	}
}

// C11 (modified ciphertexts): an honest envelope whose ciphertext was truncated, extended or had a byte replaced
// never opens (a different ciphertext value fails authentication) and never crashes.
func VerifC11Mutated() {
	key := vf.Bytes("sharedkey", 32)
	vf.Assume(len(key) == 32)
	src := vfKeys{id: "kid", key: key}
	msg := &wrapping.BlobInfo{Ciphertext: vf.Bytes("payload", 16)}
	ct, err := EncryptMessage(context.Background(), msg, src)
	vf.Assert("encrypt-ok", err == nil)
	blob := new(wrapping.BlobInfo)
	vf.Assert("envelope-decodes", proto.Unmarshal(ct, blob) == nil)
	orig := blob.Ciphertext
	n := vf.Int("cut-at", 0, 60)
	vf.Assume(n <= len(orig))
	switch vf.Int("mutation", 0, 3) {
	case 0: // truncated to any length, including below the nonce size
		blob.Ciphertext = orig[:n]
		vf.Assume(n < len(orig))
	case 1: // extended
		extra := vf.Bytes("extra", 4)
		vf.Assume(len(extra) >= 1)
		blob.Ciphertext = append(append([]byte{}, orig...), extra...)
	case 2: // one byte replaced
		vf.Assume(n < len(orig))
		b := vf.Bytes("replacement", 1)
		vf.Assume(vf.And(len(b) == 1, vf.Not(vf.EqBytes(b, orig[n:n+1]))))
		blob.Ciphertext = append(append(append([]byte{}, orig[:n]...), b...), orig[n+1:]...)
	default: // untouched: still opens
	}
	mutated, err := proto.Marshal(blob)
	vf.Assert("re-encode-ok", err == nil)
	out := new(wrapping.BlobInfo)
	derr := DecryptMessage(context.Background(), mutated, src, out)
	if derr == nil {
		vf.Reach("opened")
		vf.Assert("only-the-unmodified-ciphertext-opens", vf.EqBytes(blob.Ciphertext, orig))
		vf.Assert("plaintext-intact", vf.EqBytes(out.Ciphertext, msg.Ciphertext))
	} else {
		vf.Reach("refused")
		vf.Assert("unmodified-ciphertext-opens", vf.Not(vf.EqBytes(blob.Ciphertext, orig)))
	}
}
