//go:build verif

package nodeenrollment

import (
	"context"
	"errors"

	wrapping "github.com/hashicorp/go-kms-wrapping/v2"
	"github.com/hashicorp/nodeenrollment/zzverif/vf"
	"google.golang.org/protobuf/proto"
)

var VfHarnesses = map[string]func(){"VerifC11Arbitrary": VerifC11Arbitrary, "VerifC11RoundTrip": VerifC11RoundTrip}

type vfKeys struct {
	id  string
	key []byte
}

func (k vfKeys) X25519EncryptionKey() (string, []byte, error) { return k.id, k.key, nil }
func (k vfKeys) PreviousX25519EncryptionKey() (string, []byte, error) {
	return "", nil, errors.New("no previous key")
}

// C11 (crash freedom): an arbitrary envelope never makes DecryptMessage panic.
// The AEAD dependency's Decrypt runs from its real SSA.
func VerifC11Arbitrary() {
	key := vf.Bytes("sharedkey", 32)
	vf.Assume(len(key) == 32)
	ct, _ := proto.Marshal(&wrapping.BlobInfo{Ciphertext: vf.Bytes("ciphertext", 40)})
	err := DecryptMessage(context.Background(), ct, vfKeys{"kid", key}, new(wrapping.BlobInfo))
	vf.Assert("arbitrary-ciphertext-is-rejected", err != nil)
	vf.Reach("returned")
}

// C11 (round trip / binding): decrypts iff same key and same key id.
func VerifC11RoundTrip() {
	k1 := vf.Bytes("key1", 32)
	k2 := vf.Bytes("key2", 32)
	vf.Assume(vf.And(len(k1) == 32, len(k2) == 32))
	id2 := vf.String("id2", 8)
	msg := &wrapping.BlobInfo{Ciphertext: vf.Bytes("payload", 16)}
	ct, err := EncryptMessage(context.Background(), msg, vfKeys{"kid", k1})
	vf.Assert("encrypt-ok", err == nil)
	out := new(wrapping.BlobInfo)
	err = DecryptMessage(context.Background(), ct, vfKeys{id2, k2}, out)
	same := vf.And(vf.EqBytes(k1, k2), id2 == "kid")
	if err == nil {
		vf.Reach("decrypted")
		vf.Assert("only-with-same-key-and-id", same)
		vf.Assert("plaintext-intact", vf.EqBytes(out.Ciphertext, msg.Ciphertext))
	} else {
		vf.Reach("refused")
		vf.Assert("refused-only-if-different", vf.Not(same))
	}
}
