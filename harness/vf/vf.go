// Package vf is the harness intrinsic API. Under the symbolic engine every call
// into this package is intercepted; compiled natively the functions below read
// the solver's model from $VERIF_MODEL and return those concrete values.
package vf

import (
	"bytes"
	"crypto/ecdh"
	"crypto/ed25519"
	"crypto/rand"
	"crypto/sha256"
	"crypto/tls"
	"crypto/x509"
	"encoding/hex"
	"encoding/json"
	"errors"
	"fmt"
	"net"
	"os"
	"time"

	"google.golang.org/protobuf/proto"
)

type model struct {
	Ints    map[string]int64  `json:"ints"`
	Bools   map[string]bool   `json:"bools"`
	Hex     map[string]string `json:"hexstrings"` // byte strings travel hex-encoded (JSON strings must be UTF-8)
	Strings map[string]string `json:"-"`
}

var (
	m       model
	loaded  bool
	occ     = map[string]int{}
	Failed  []string
	Reached []string
)

func load() {
	if loaded {
		return
	}
	loaded = true
	m = model{Ints: map[string]int64{}, Bools: map[string]bool{}, Strings: map[string]string{}}
	if p := os.Getenv("VERIF_MODEL"); p != "" {
		b, err := os.ReadFile(p)
		if err != nil {
			panic(err)
		}
		if err := json.Unmarshal(b, &m); err != nil {
			panic(err)
		}
		m.Strings = map[string]string{}
		for k, h := range m.Hex {
			raw, err := hex.DecodeString(h)
			if err != nil {
				panic(err)
			}
			m.Strings[k] = string(raw)
		}
		if m.Ints == nil {
			m.Ints = map[string]int64{}
		}
		if m.Bools == nil {
			m.Bools = map[string]bool{}
		}
	}
}

func key(label string) string {
	load()
	occ[label]++
	return fmt.Sprintf("%s#%d", label, occ[label])
}

// Reset is called by the replay test before each harness.
func Reset() { occ = map[string]int{}; Failed = nil; Reached = nil; t0 = time.Time{} }

func Int(label string, lo, hi int) int {
	k := key(label)
	v, ok := m.Ints[k]
	if !ok {
		return lo
	}
	return int(v)
}
func Bool(label string) bool                 { return m.Bools[key(label)] }
func String(label string, maxLen int) string { return m.Strings[key(label)] }
func Bytes(label string, maxLen int) []byte {
	s, ok := m.Strings[key(label)]
	if !ok {
		return nil
	}
	return []byte(s)
}

// Garbage is model-chosen bytes that start with 0xFF: no protobuf, base64 or base58 decoder accepts them.
func Garbage(label string, maxLen int) []byte {
	s, ok := m.Strings[key(label)]
	if !ok || len(s) == 0 || s[0] != 0xff {
		return []byte{0xff}
	}
	return []byte(s)
}

// NonCanonical returns a different byte string that protobuf decodes to the same message: the encoding
// twice (scalar fields: last one wins; sub-messages: merged field by field). Only for messages without
// repeated fields.
func NonCanonical(b []byte) []byte { return append(append([]byte{}, b...), b...) }

// IfInt / IfStr / IfBytes are conditional values that do not branch under the engine.
func IfInt(c bool, a, b int) int {
	if c {
		return a
	}
	return b
}
func IfStr(c bool, a, b string) string {
	if c {
		return a
	}
	return b
}
func IfBytes(c bool, a, b []byte) []byte {
	if c {
		return a
	}
	return b
}

// FillRandom writes n random bytes to the front of p and zeroes the rest.
func FillRandom(p []byte, n int) {
	for i := range p {
		p[i] = 0
	}
	if n > len(p) {
		n = len(p)
	}
	if _, err := rand.Read(p[:n]); err != nil {
		panic(err)
	}
}

// ShortScenario states the clock assumption "everything from here on happens within d of base" (engine: bounds every
// later clock reading; natively the harness simply runs that fast).
func ShortScenario(base time.Time, d time.Duration) {}

// AppendSpare(k): from here on a reallocating append may return up to k spare slots of capacity (the Go runtime rounds
// capacities up to size classes). Engine directive; natively the real runtime decides.
func AppendSpare(k int) {}

// Sat records (engine only) that cond is satisfiable at this point: used for tightness twins ("with a weaker bound
// the assertion would be violable"). Natively a no-op.
func Sat(label string, cond bool) {}

// Native reports whether the harness runs natively (false under the engine): for the few harnesses whose engine side is
// a directive (vf.CutLoop) and whose native twin has to reach the same state by other means.
func Native() bool { return true }

// Bound states a bound of the harness itself (not of the property): the engine reports a violable bound as inconclusive.
func Bound(label string, cond bool) {}

func Assume(b bool) {
	if !b {
		panic("vf.Assume violated natively: model does not satisfy harness assumption")
	}
}
func Assert(label string, b bool) {
	if !b {
		Failed = append(Failed, label)
	}
}

// CutLoop is an engine directive (inductive loop cut); natively a no-op.
func CutLoop(fn, header string, checker any, ranges ...any) {}

// Quiesce lets all other goroutines run until they block (natively: a short sleep).
func Quiesce() { time.Sleep(50 * time.Millisecond) }

// FreezeHeap marks everything allocated so far as pre-existing (engine only; no-op natively).
func FreezeHeap() {}

func Reach(label string)     { Reached = append(Reached, label) }
func Or(a, b bool) bool      { return a || b }
func And(a, b bool) bool     { return a && b }
func Implies(a, b bool) bool { return !a || b }

// SecretFree reports whether none of the secrets occurs in clear in the marshalled message.
func SecretFree(msg proto.Message, secrets ...[]byte) bool {
	b, err := proto.Marshal(msg)
	if err != nil {
		panic(err)
	}
	for _, s := range secrets {
		if len(s) > 0 && bytes.Contains(b, s) {
			return false
		}
	}
	return true
}

// AdversaryConn is the native twin of the handshake-model peer: the server side of an in-memory pipe whose
// other end is driven by a crypto/tls client offering exactly these ALPN entries and this certificate chain,
// signing with the leaf's key (universe key keyIdx) if it holds it, with an unrelated key otherwise.
// Under the engine the call is intercepted and returns nil: the model reads the peer struct instead.
func AdversaryConn(protos []string, chain [][]byte, keyIdx int, holds bool) net.Conn {
	return AdversaryConnMode(protos, chain, keyIdx, holds, false, false)
}

// AdversaryConnMode additionally offers a peer that does not speak TLS (writes junk, then closes) and a peer that
// aborts the handshake with a fatal alert once it has seen the server's certificate.
func AdversaryConnMode(protos []string, chain [][]byte, keyIdx int, holds, notTLS, abort bool) net.Conn {
	server, client := connPair()
	if notTLS {
		go func() {
			_, _ = client.Write([]byte("GET / HTTP/1.1\r\nHost: example\r\n\r\n"))
			_ = client.Close()
		}()
		return server
	}
	if abort {
		go func() {
			// verification against an empty pool fails: the client sends a fatal bad_certificate alert
			tc := tls.Client(client, &tls.Config{NextProtos: protos, RootCAs: x509.NewCertPool(), ServerName: "no-such-server", MinVersion: tls.VersionTLS13})
			_ = client.SetDeadline(time.Now().Add(5 * time.Second))
			_ = tc.Handshake()
			_ = client.Close()
		}()
		return server
	}
	go func() {
		k := keyIdx
		if !holds {
			k = 7
		}
		cfg := &tls.Config{NextProtos: protos, InsecureSkipVerify: true, MinVersion: tls.VersionTLS13,
			GetClientCertificate: func(*tls.CertificateRequestInfo) (*tls.Certificate, error) {
				return &tls.Certificate{Certificate: chain, PrivateKey: edKey(k)}, nil
			}}
		tc := tls.Client(client, cfg)
		_ = client.SetDeadline(time.Now().Add(5 * time.Second))
		_ = tc.Handshake()
		// TLS 1.3: the client finishes before the server has checked its certificate; read to learn the verdict
		_ = client.SetReadDeadline(time.Now().Add(500 * time.Millisecond))
		buf := make([]byte, 1)
		_, _ = tc.Read(buf)
		_ = client.Close()
	}()
	return server
}

// AdversaryConnReset is a peer that completes the handshake (presenting chain, signing with universe key keyIdx) and then resets the
// connection: from the moment the server has read the client's last handshake flight every write on the server's
// end fails, so the close_notify of the server's Close fails. (A real RST races with the server; failing the
// writes on the server's end of the same loopback connection is the deterministic equivalent.)
func AdversaryConnReset(protos []string, chain [][]byte, keyIdx int) net.Conn {
	server, client := connPair()
	go func() {
		tc := tls.Client(client, &tls.Config{NextProtos: protos, InsecureSkipVerify: true, MinVersion: tls.VersionTLS13,
			GetClientCertificate: func(*tls.CertificateRequestInfo) (*tls.Certificate, error) {
				return &tls.Certificate{Certificate: chain, PrivateKey: edKey(keyIdx)}, nil
			}})
		_ = client.SetDeadline(time.Now().Add(5 * time.Second))
		_ = tc.Handshake()
		buf := make([]byte, 1)
		_ = client.SetReadDeadline(time.Now().Add(500 * time.Millisecond))
		_, _ = tc.Read(buf)
		_ = client.Close()
	}()
	return &resetConn{Conn: server}
}

// resetConn fails every write once a read has delivered data after the first write (the server's flight): that read
// is the client's Finished, the last thing a TLS 1.3 server reads in its handshake.
type resetConn struct {
	net.Conn
	wrote, reset bool
}

func (c *resetConn) Write(p []byte) (int, error) {
	if c.reset {
		return 0, &net.OpError{Op: "write", Net: "tcp", Err: errors.New("connection reset by peer")}
	}
	c.wrote = true
	return c.Conn.Write(p)
}

func (c *resetConn) Read(p []byte) (int, error) {
	n, err := c.Conn.Read(p)
	if c.wrote && n > 0 {
		c.reset = true
	}
	return n, err
}

// RogueServerConn is the native twin of the client-side handshake model's peer: the client end of a connection
// whose other end is a crypto/tls server that selects ALPN value proto, presents chain, signs with keyPkcs8 if it
// holds the leaf key (with an unrelated key otherwise) and, if asked, requests a client certificate announcing the
// given CAs. Under the engine the call is intercepted and returns nil: the model reads the peer struct.
func RogueServerConn(proto string, chain [][]byte, keyPkcs8 []byte, holds, requestsClientCert bool, caDers [][]byte) net.Conn {
	server, client := connPair()
	go func() {
		var key any
		if holds {
			k, err := x509.ParsePKCS8PrivateKey(keyPkcs8)
			if err != nil {
				panic(err)
			}
			key = k
		} else {
			key = edKey(7)
		}
		cfg := &tls.Config{NextProtos: []string{proto}, MinVersion: tls.VersionTLS13,
			Certificates: []tls.Certificate{{Certificate: chain, PrivateKey: key}}}
		if requestsClientCert {
			cfg.ClientAuth = tls.RequireAnyClientCert
			cfg.ClientCAs = x509.NewCertPool()
			for _, der := range caDers {
				if c, err := x509.ParseCertificate(der); err == nil {
					cfg.ClientCAs.AddCert(c)
				}
			}
		}
		ts := tls.Server(server, cfg)
		_ = server.SetDeadline(time.Now().Add(5 * time.Second))
		_ = ts.Handshake()
		buf := make([]byte, 1)
		_ = server.SetReadDeadline(time.Now().Add(300 * time.Millisecond))
		_, _ = ts.Read(buf)
		_ = server.Close()
	}()
	return client
}

// RespondingServerConn is a TLS server whose answer is computed from the client's hello: respond(offered ALPN
// values) returns the protocol to select, the certificate chain to present and whether to go on at all. It signs
// with keyPkcs8 if it holds the leaf key (with an unrelated key otherwise) and requests a client certificate.
// Returns the client end. Under the engine the call is intercepted: the model runs the peer's Respond field.
func RespondingServerConn(respond func([]string) (string, [][]byte, bool), keyPkcs8 []byte, holds bool, caSubjects [][]byte) net.Conn {
	server, client := connPair()
	go func() {
		var key any = edKey(7)
		if holds {
			k, err := x509.ParsePKCS8PrivateKey(keyPkcs8)
			if err != nil {
				panic(err)
			}
			key = k
		}
		cfg := &tls.Config{MinVersion: tls.VersionTLS13, GetConfigForClient: func(hello *tls.ClientHelloInfo) (*tls.Config, error) {
			proto, chain, ok := respond(hello.SupportedProtos)
			if !ok {
				return nil, errors.New("vf: the responding server refuses the hello")
			}
			// announce the given CA subjects in the certificate request: a pool of stand-in certificates with those subjects
			pool := x509.NewCertPool()
			for _, subj := range caSubjects {
				pool.AddCert(&x509.Certificate{Raw: subj, RawSubject: subj})
			}
			return &tls.Config{MinVersion: tls.VersionTLS13, NextProtos: []string{proto}, ClientAuth: tls.RequireAnyClientCert, ClientCAs: pool,
				Certificates: []tls.Certificate{{Certificate: chain, PrivateKey: key}}}, nil
		}}
		ts := tls.Server(server, cfg)
		_ = server.SetDeadline(time.Now().Add(5 * time.Second))
		_ = ts.Handshake()
		buf := make([]byte, 1)
		_ = server.SetReadDeadline(time.Now().Add(300 * time.Millisecond))
		_, _ = ts.Read(buf)
		_ = server.Close()
	}()
	return client
}

// DialScript makes the given peers answer the successive outgoing connections of the code under test: it returns
// the address of a loopback listener that splices the i-th accepted connection onto conns[i] (then stops
// accepting, so a further dial is refused). Under the engine the call is intercepted: (*net.Dialer).DialContext
// hands the peers out directly.
func DialScript(conns ...net.Conn) string {
	ln, err := net.Listen("tcp", "127.0.0.1:0")
	if err != nil {
		panic(err)
	}
	go func() {
		defer ln.Close()
		for _, peer := range conns {
			_ = ln.(*net.TCPListener).SetDeadline(time.Now().Add(10 * time.Second))
			c, err := ln.Accept()
			if err != nil {
				return
			}
			go splice(c, peer)
		}
	}()
	return ln.Addr().String()
}

func splice(a, b net.Conn) {
	done := make(chan struct{}, 2)
	cp := func(dst, src net.Conn) {
		buf := make([]byte, 32*1024)
		for {
			n, err := src.Read(buf)
			if n > 0 {
				if _, werr := dst.Write(buf[:n]); werr != nil {
					break
				}
			}
			if err != nil {
				break
			}
		}
		done <- struct{}{}
	}
	go cp(a, b)
	go cp(b, a)
	<-done
	_ = a.Close()
	_ = b.Close()
}

// ConnPair exposes the buffered duplex connection pair to harnesses that wire a real client to a real server.
func ConnPair() (server, client net.Conn) { return connPair() }

// connPair returns the two ends of a buffered duplex connection (a loopback TCP connection: net.Pipe is
// unbuffered, and a TLS server that sends an alert while the client is still writing its flight deadlocks on it).
func connPair() (server, client net.Conn) {
	ln, err := net.Listen("tcp", "127.0.0.1:0")
	if err != nil {
		return net.Pipe()
	}
	defer ln.Close()
	ch := make(chan net.Conn, 1)
	go func() {
		c, err := net.Dial("tcp", ln.Addr().String())
		if err != nil {
			ch <- nil
			return
		}
		ch <- c
	}()
	server, err = ln.Accept()
	client = <-ch
	if err != nil || client == nil {
		return net.Pipe()
	}
	return server, client
}

// ---- time ----
// Now reads the clock (symbolic reading under the engine).
var t0 time.Time

func Now() time.Time {
	n := time.Now()
	if t0.IsZero() {
		t0 = n
	}
	return n
}

// TimeIs: t equals the i-th clock reading plus delta. Natively the library's readings are not observable:
// t must lie between (harness start + delta) and (now + delta), widened by the elapsed time (shift terms
// computed from native stand-in readings are off by at most that much).
func TimeIs(t time.Time, i int, delta time.Duration) bool {
	now := time.Now()
	slop := now.Sub(t0)
	return !t.Before(t0.Add(delta-slop)) && !t.After(now.Add(delta+slop))
}

// Sleep lets at least d pass (symbolic: constrains the next clock reading).
func Sleep(d time.Duration) {
	if d > 2*time.Second { // a replay cannot wait for hours: such a witness stays unconfirmed
		panic("vf.Sleep: witness needs a longer wait than a replay can afford")
	}
	time.Sleep(d)
}

// TimeFromNow is base plus a model-chosen offset in ns.
func TimeFromNow(label string, base time.Time) time.Time {
	return base.Add(time.Duration(Int(label, 0, 0)))
}

// Dur is a model-chosen duration in [lo, hi] ns.
func Dur(label string, lo, hi int64) time.Duration { return time.Duration(Int(label, 0, 0)) }

// ClockReading returns the i-th clock reading of the run. Natively the library's own
// readings are not observable; the current time is the closest stand-in (replay models
// are chosen with a margin, see DESIGN 3.3).
func ClockReading(i int) time.Time { return time.Now() }
func TimeLE(a, b time.Time) bool   { return !a.After(b) }
func EqBytes(a, b []byte) bool     { return string(a) == string(b) }
func TimeLT(a, b time.Time) bool   { return a.Before(b) }
func TimeEq(a, b time.Time) bool   { return a.Equal(b) }
func Iff(a, b bool) bool           { return a == b }
func Not(a bool) bool              { return !a }

// ---- key universe: deterministic real keys ----
func edKey(k int) ed25519.PrivateKey {
	seed := sha256.Sum256([]byte(fmt.Sprintf("vf-ed25519-key-%d", k)))
	return ed25519.NewKeyFromSeed(seed[:])
}

// Pkix returns the PKIX encoding of the public key of universe key k.
func Pkix(k int) []byte {
	b, err := x509.MarshalPKIXPublicKey(edKey(k).Public())
	if err != nil {
		panic(err)
	}
	return b
}

// X25519Priv / X25519Pub: deterministic X25519 key pair k of the universe.
func X25519Priv(k int) []byte {
	s := sha256.Sum256([]byte(fmt.Sprintf("vf-x25519-key-%d", k)))
	return s[:]
}
func X25519Pub(k int) []byte {
	pk, err := ecdh.X25519().NewPrivateKey(X25519Priv(k))
	if err != nil {
		panic(err)
	}
	return pk.PublicKey().Bytes()
}

// Pkcs8 returns the PKCS8 encoding of the private key of universe key k.
func Pkcs8(k int) []byte {
	b, err := x509.MarshalPKCS8PrivateKey(edKey(k))
	if err != nil {
		panic(err)
	}
	return b
}

// SigBy returns a real signature by key k over msg, or 64 junk bytes if k < 0.
func SigBy(k int, msg []byte) []byte {
	if k < 0 {
		j := sha256.Sum256(append([]byte("junk"), msg...))
		return append(j[:], j[:]...)
	}
	return ed25519.Sign(edKey(k), msg)
}

// SigOK is the ghost predicate "sig is a valid signature by key k over msg".
func SigOK(k int, msg, sig []byte) bool {
	return ed25519.Verify(edKey(k).Public().(ed25519.PublicKey), msg, sig)
}
