//go:build verif

package file

import (
	"context"

	"github.com/hashicorp/nodeenrollment/zzverif/vf"
	"github.com/hashicorp/nodeenrollment/zzverif/vfs"
)

var VfHarnesses = map[string]func(){"VerifC19FileStep": VerifC19FileStep, "VerifC19FileStep3": VerifC19FileStep3}

// C19 for the file back end: the inductive map step over an abstract file system (engine) / a temporary directory (native).
var vfPre = 2

// VerifC19FileStep3 is the same step from a three-entry pre-state (thorough tier).
func VerifC19FileStep3() { vfPre = 3; VerifC19FileStep() }

func VerifC19FileStep() {
	ctx := context.Background()
	st, err := New(ctx)
	vf.Assert("storage-created", err == nil)
	if err != nil {
		return
	}
	defer st.Cleanup(ctx)
	vfs.MapStep(ctx, st, false, vfPre)
}
