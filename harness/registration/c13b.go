//go:build verif

package registration

import (
	"context"
	"crypto/ecdh"
	"time"

	"github.com/hashicorp/nodeenrollment"
	"github.com/hashicorp/nodeenrollment/types"
	"github.com/hashicorp/nodeenrollment/zzverif/vf"
	"github.com/hashicorp/nodeenrollment/zzverif/vfs"
)

func init() {
	VfHarnesses["VerifC13AuthorizeFaults"] = VerifC13AuthorizeFaults
	VfHarnesses["VerifC13NodeLedFetchFaults"] = VerifC13NodeLedFetchFaults
	VfHarnesses["VerifC13WrappedFetchFaults"] = VerifC13WrappedFetchFaults
	VfHarnesses["VerifC13TokenCreateFaults"] = VerifC13TokenCreateFaults
	VfHarnesses["VerifC13NodeSideFaults"] = VerifC13NodeSideFaults
	VfHarnesses["VerifC13DuplicateRecordFaults"] = VerifC13DuplicateRecordFaults
}

// vfFaultEnv: server storage with roots and an unrelated node's record (whose bytes must never change), wrapped by a
// fault injector whose failing operation index and error kind are symbolic.
func vfFaultEnv(ctx context.Context, t0 time.Time, maxOps int) (*vfs.Storage, *vfs.Faulty, []vfs.Entry) {
	inner := &vfs.Storage{}
	vfs.StoreRoots(ctx, inner, t0)
	vfRecord(ctx, inner, 5, []byte("the-other-nodes-registration-non"), vf.X25519Pub(2), 8)
	f := &vfs.Faulty{Inner: inner, FailAt: vf.Int("fail-at", -1, maxOps), ErrKind: vf.Int("error-kind", 0, 2)}
	return inner, f, inner.Snapshot()
}

func vfOtherUntouched(inner *vfs.Storage, snap []vfs.Entry) bool {
	id, _ := nodeenrollment.KeyIdFromPkix(vf.Pkix(5))
	for _, e := range snap {
		if e.Kind == vfs.KindNode && e.Id == id {
			return vf.And(inner.Has(vfs.KindNode, id), vf.EqBytes(inner.Get(vfs.KindNode, id), e.Data))
		}
	}
	return false
}

func vfSameRecord(a, b *types.NodeInformation) bool {
	if len(a.CertificateBundles) != len(b.CertificateBundles) {
		return false
	}
	ok := vf.And(vf.And(vf.EqBytes(a.CertificatePublicKeyPkix, b.CertificatePublicKeyPkix), vf.EqBytes(a.RegistrationNonce, b.RegistrationNonce)),
		vf.And(vf.EqBytes(a.EncryptionPublicKeyBytes, b.EncryptionPublicKeyBytes), vf.EqBytes(a.ServerEncryptionPrivateKeyBytes, b.ServerEncryptionPrivateKeyBytes)))
	for i := range a.CertificateBundles {
		ok = vf.And(ok, vf.EqBytes(a.CertificateBundles[i].CertificateDer, b.CertificateBundles[i].CertificateDer))
	}
	return ok
}

// C13, operator authorization.
func VerifC13AuthorizeFaults() {
	ctx := context.Background()
	t0 := vf.Now()
	vf.ShortScenario(t0, time.Second)
	const maxOps = 6
	inner, f, snap := vfFaultEnv(ctx, t0, maxOps)
	req := vfSignedRequest(t0, 2, []byte("a-node-led-registration-nonce-32"), vf.X25519Pub(1), nil)
	rec, err := AuthorizeNode(ctx, f, req)
	vf.Bound("op-count-within-bound", f.N <= maxOps)
	if f.Hit {
		vf.Reach("fault-hit")
	}
	keyId, _ := nodeenrollment.KeyIdFromPkix(vf.Pkix(2))
	if err == nil {
		vf.Reach("authorized")
		stored, lerr := types.LoadNodeInformation(ctx, inner, keyId)
		vf.Assert("success-implies-record-persisted", lerr == nil)
		if lerr == nil {
			vf.Assert("persisted-equals-returned", vfSameRecord(stored, rec))
		}
	} else {
		vf.Reach("failed")
		vf.Assert("failure-returns-no-record", rec == nil)
	}
	vf.Assert("no-fault-means-success", vf.Implies(!f.Hit, err == nil))
	vf.Assert("other-nodes-record-untouched", vfOtherUntouched(inner, snap))
}

// C13, fetch of an already authorized node-led registration (no write is expected at all).
func VerifC13NodeLedFetchFaults() {
	ctx := context.Background()
	t0 := vf.Now()
	vf.ShortScenario(t0, time.Second)
	const maxOps = 4
	inner, f, _ := vfFaultEnv(ctx, t0, maxOps)
	nonce := []byte("a-node-led-registration-nonce-32")
	vfRecord(ctx, inner, 2, nonce, vf.X25519Pub(1), 9)
	snap := inner.Snapshot()
	resp, err := FetchNodeCredentials(ctx, f, vfSignedRequest(t0, 2, nonce, vf.X25519Pub(1), nil))
	vf.Bound("op-count-within-bound", f.N <= maxOps)
	if f.Hit {
		vf.Reach("fault-hit")
	}
	if vfIssued(resp, err) {
		vf.Reach("issued")
	} else {
		vf.Reach("not-issued")
		vf.Assert("failed-reply-carries-no-credentials", resp == nil || len(resp.EncryptedNodeCredentials) == 0)
	}
	vf.Assert("no-fault-means-success", vf.Implies(!f.Hit, vfIssued(resp, err)))
	vf.Assert("fetch-changes-nothing-in-storage", inner.SameAs(snap))
}

// C13, fetch with registration info sealed by the server's registration wrapper (creates the record).
func VerifC13WrappedFetchFaults() {
	ctx := context.Background()
	t0 := vf.Now()
	vf.ShortScenario(t0, time.Second)
	const maxOps = 6
	inner, f, snap := vfFaultEnv(ctx, t0, maxOps)
	w := vfAeadWrapper("reg", 6)
	creds, err := types.NewNodeCredentials(ctx, &vfs.Storage{})
	if err != nil {
		panic(err)
	}
	req, err := creds.CreateFetchNodeCredentialsRequest(ctx, nodeenrollment.WithRegistrationWrapper(w))
	if err != nil {
		panic(err)
	}
	resp, err := FetchNodeCredentials(ctx, f, req, nodeenrollment.WithRegistrationWrapper(w))
	vf.Bound("op-count-within-bound", f.N <= maxOps)
	if f.Hit {
		vf.Reach("fault-hit")
	}
	keyId, _ := nodeenrollment.KeyIdFromPkix(creds.CertificatePublicKeyPkix)
	if vfIssued(resp, err) {
		vf.Reach("issued")
		vf.Assert("issued-implies-record-persisted", inner.Has(vfs.KindNode, keyId))
	} else {
		vf.Reach("not-issued")
		vf.Assert("failed-reply-carries-no-credentials", resp == nil || len(resp.EncryptedNodeCredentials) == 0)
	}
	vf.Assert("no-fault-means-success", vf.Implies(!f.Hit, vfIssued(resp, err)))
	vf.Assert("other-nodes-record-untouched", vfOtherUntouched(inner, snap))
}

// C13, creation of an activation token.
func VerifC13TokenCreateFaults() {
	ctx := context.Background()
	t0 := vf.Now()
	vf.ShortScenario(t0, time.Second)
	const maxOps = 3
	inner, f, snap := vfFaultEnv(ctx, t0, maxOps)
	id, token, err := CreateServerLedActivationToken(ctx, f, &types.ServerLedRegistrationRequest{})
	vf.Bound("op-count-within-bound", f.N <= maxOps)
	if f.Hit {
		vf.Reach("fault-hit")
	}
	if err == nil {
		vf.Reach("created")
		vf.Assert("success-implies-token-persisted", inner.Has(vfs.KindToken, id))
		vf.Assert("token-handed-out", len(token) > 0)
	} else {
		vf.Reach("failed")
		vf.Assert("failure-hands-out-no-token", vf.And(id == "", token == ""))
		vf.Assert("failure-persists-no-token", inner.Count(vfs.KindToken) == 0)
	}
	vf.Assert("no-fault-means-success", vf.Implies(!f.Hit, err == nil))
	vf.Assert("other-nodes-record-untouched", vfOtherUntouched(inner, snap))
}

// C13, node side: creating node credentials and handling a fetch response over a faulty node storage.
func VerifC13NodeSideFaults() {
	ctx := context.Background()
	t0 := vf.Now()
	vf.ShortScenario(t0, time.Second)
	server := &vfs.Storage{}
	vfs.StoreRoots(ctx, server, t0)
	nodeInner := &vfs.Storage{}
	const maxOps = 4
	f := &vfs.Faulty{Inner: nodeInner, FailAt: vf.Int("fail-at", -1, maxOps), ErrKind: vf.Int("error-kind", 0, 2)}
	creds, err := types.NewNodeCredentials(ctx, f)
	if err != nil {
		vf.Reach("creation-failed")
		vf.Assert("failed-creation-returns-nothing", creds == nil)
		vf.Assert("failed-creation-persists-nothing", nodeInner.Count(vfs.KindCreds) == 0)
		return
	}
	vf.Reach("created")
	vf.Assert("created-credentials-are-persisted", nodeInner.Has(vfs.KindCreds, string(nodeenrollment.CurrentId)))
	req, err := creds.CreateFetchNodeCredentialsRequest(ctx)
	if err != nil {
		panic(err)
	}
	if _, err := AuthorizeNode(ctx, server, req); err != nil {
		panic(err)
	}
	resp, err := FetchNodeCredentials(ctx, server, req)
	if err != nil {
		panic(err)
	}
	before := nodeInner.Get(vfs.KindCreds, string(nodeenrollment.CurrentId))
	out, err := creds.HandleFetchNodeCredentialsResponse(ctx, f, resp)
	vf.Bound("op-count-within-bound", f.N <= maxOps)
	if f.Hit {
		vf.Reach("fault-hit")
	}
	if err == nil {
		vf.Reach("handled")
		loaded, lerr := types.LoadNodeCredentials(ctx, nodeInner, nodeenrollment.CurrentId)
		vf.Assert("success-implies-credentials-persisted", lerr == nil)
		if lerr == nil {
			vf.Assert("persisted-credentials-carry-the-certificates", len(loaded.CertificateBundles) == 2 && len(out.CertificateBundles) == 2)
		}
	} else {
		vf.Reach("handling-failed")
		vf.Assert("failure-returns-nothing", out == nil)
		vf.Assert("failure-leaves-stored-credentials-as-they-were", vf.EqBytes(nodeInner.Get(vfs.KindCreds, string(nodeenrollment.CurrentId)), before))
	}
	vf.Assert("no-fault-means-success", vf.Implies(!f.Hit, err == nil))
}

// C13, a storage that refuses to overwrite node records (store-once): a wrapper-flow fetch repeated for a key that
// already has a record makes the library fall back to the stored record; with a fault anywhere - in particular on
// that reload - credentials are handed out only if they are the ones in storage.
func VerifC13DuplicateRecordFaults() {
	ctx := context.Background()
	t0 := vf.Now()
	vf.ShortScenario(t0, time.Second)
	inner := &vfs.Storage{Once: true}
	vfs.StoreRoots(ctx, inner, t0)
	w := vfAeadWrapper("reg", 6)
	creds, err := types.NewNodeCredentials(ctx, &vfs.Storage{})
	if err != nil {
		panic(err)
	}
	req, err := creds.CreateFetchNodeCredentialsRequest(ctx, nodeenrollment.WithRegistrationWrapper(w))
	if err != nil {
		panic(err)
	}
	if _, err := FetchNodeCredentials(ctx, inner, req, nodeenrollment.WithRegistrationWrapper(w)); err != nil { // first, undisturbed enrollment
		panic(err)
	}
	keyId, _ := nodeenrollment.KeyIdFromPkix(creds.CertificatePublicKeyPkix)
	before := inner.Get(vfs.KindNode, keyId)
	const maxOps = 7
	f := &vfs.Faulty{Inner: inner, FailAt: vf.Int("fail-at", -1, maxOps), ErrKind: vf.Int("error-kind", 0, 2)}
	resp, err := FetchNodeCredentials(ctx, f, req, nodeenrollment.WithRegistrationWrapper(w))
	vf.Bound("op-count-within-bound", f.N <= maxOps)
	if f.Hit {
		vf.Reach("fault-hit")
	}
	vf.Assert("stored-record-never-replaced", vf.EqBytes(inner.Get(vfs.KindNode, keyId), before))
	if vfIssued(resp, err) {
		vf.Reach("issued")
		stored, lerr := types.LoadNodeInformation(ctx, inner, keyId)
		vf.Assert("record-present", lerr == nil)
		if lerr == nil {
			priv, perr := ecdh.X25519().NewPrivateKey(stored.ServerEncryptionPrivateKeyBytes)
			vf.Assert("stored-server-key-usable", perr == nil)
			if perr == nil {
				vf.Assert("credentials-handed-out-are-the-persisted-ones", vf.EqBytes(resp.ServerEncryptionPublicKeyBytes, priv.PublicKey().Bytes()))
			}
		}
	} else {
		vf.Reach("not-issued")
	}
	vf.Assert("no-fault-means-success", vf.Implies(!f.Hit, vfIssued(resp, err)))
}
