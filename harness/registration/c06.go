//go:build verif

package registration

import (
	"context"
	"time"

	"github.com/hashicorp/nodeenrollment"
	"github.com/hashicorp/nodeenrollment/types"
	"github.com/hashicorp/nodeenrollment/zzverif/vf"
	"github.com/hashicorp/nodeenrollment/zzverif/vfs"
)

func init() { VfHarnesses["VerifC06SingleUse"] = VerifC06SingleUse }

// C06: a token created by the real CreateServerLedActivationToken enrolls at most one node, only
// while younger than the configured maximum lifetime; the honest node side (NewNodeCredentials,
// CreateFetchNodeCredentialsRequest) is the library's own code as well.
func VerifC06SingleUse() {
	ctx := context.Background()
	st := &vfs.Storage{}
	t0 := vf.Now()
	vfs.StoreRoots(ctx, st, t0)
	_, token, err := CreateServerLedActivationToken(ctx, st, &types.ServerLedRegistrationRequest{})
	vf.Assert("token-created", err == nil)
	created := vf.ClockReading(1)
	maxLife := vf.Dur("max-lifetime", -1000000000000000, 1000000000000000)

	fetch := func() bool {
		nodeSt := &vfs.Storage{}
		creds, err := types.NewNodeCredentials(ctx, nodeSt, nodeenrollment.WithActivationToken(token))
		if err != nil {
			panic(err)
		}
		req, err := creds.CreateFetchNodeCredentialsRequest(ctx, nodeenrollment.WithActivationToken(token))
		if err != nil {
			panic(err)
		}
		resp, err := FetchNodeCredentials(ctx, st, req, nodeenrollment.WithMaximumServerLedActivationTokenLifetime(maxLife))
		return err == nil && resp != nil && len(resp.EncryptedNodeCredentials) > 0
	}
	first := fetch()
	usedAt := vf.Now()
	recordsAfterFirst := st.Count(vfs.KindNode)
	second := fetch()
	vf.Assume(vf.TimeLE(vf.Now(), t0.Add(time.Second)))
	if first {
		vf.Reach("first-use-enrolled")
		vf.Assert("enrolled-only-while-unexpired", vf.TimeLE(usedAt.Add(-maxLife).Add(-time.Second), created))
		vf.Assert("exactly-one-record", recordsAfterFirst == 1)
	} else {
		vf.Reach("first-use-refused")
		vf.Assert("refused-use-creates-no-record", recordsAfterFirst == 0)
	}
	vf.Assert("second-use-never-enrolls", !second)
	vf.Assert("second-use-creates-no-record", st.Count(vfs.KindNode) == recordsAfterFirst)
	vf.Assert("token-record-gone-after-use", vf.Implies(first, st.Count(vfs.KindToken) == 0))
}
