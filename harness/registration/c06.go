//go:build verif

package registration

import (
	"context"
	"crypto/hmac"
	"crypto/sha256"
	"time"

	"github.com/hashicorp/nodeenrollment"
	"github.com/hashicorp/nodeenrollment/types"
	"github.com/hashicorp/nodeenrollment/zzverif/vf"
	"github.com/hashicorp/nodeenrollment/zzverif/vfs"
	"github.com/mr-tron/base58"
	"google.golang.org/protobuf/proto"
	"google.golang.org/protobuf/types/known/timestamppb"
)

func init() {
	VfHarnesses["VerifC06SingleUse"] = VerifC06SingleUse
	VfHarnesses["VerifC06ExistingKey"] = VerifC06ExistingKey
	VfHarnesses["VerifC06Tamper"] = VerifC06Tamper
}

// vfStorageOpts: the server runs with or without a storage wrapper (symbolic configuration).
func vfStorageOpts(withWrapper bool) []nodeenrollment.Option {
	if withWrapper {
		return []nodeenrollment.Option{nodeenrollment.WithStorageWrapper(vfAeadWrapper("storage", 5))}
	}
	return nil
}

// C06 (single use, expiry): a token created by the real CreateServerLedActivationToken enrolls at most one node,
// only while younger than the configured maximum lifetime; the second presentation - by the same node or by
// another one - never enrolls. The honest node side is the library's own code as well.
func VerifC06SingleUse() {
	ctx := context.Background()
	st := &vfs.Storage{}
	t0 := vf.Now()
	vf.ShortScenario(t0, time.Second)
	opts := vfStorageOpts(vf.Bool("storage-wrapper"))
	vfs.StoreRoots(ctx, st, t0, opts...)
	_, token, err := CreateServerLedActivationToken(ctx, st, &types.ServerLedRegistrationRequest{}, opts...)
	vf.Assert("token-created", err == nil)
	if err != nil {
		return
	}
	created := vf.Now() // just after the creation instant
	maxLife := vf.Dur("max-lifetime", -1000000000000000, 1000000000000000)
	fopts := append(append([]nodeenrollment.Option{}, opts...), nodeenrollment.WithMaximumServerLedActivationTokenLifetime(maxLife))

	newNode := func() *types.NodeCredentials {
		creds, err := types.NewNodeCredentials(ctx, &vfs.Storage{}, nodeenrollment.WithActivationToken(token))
		if err != nil {
			panic(err)
		}
		return creds
	}
	fetch := func(creds *types.NodeCredentials, extra ...nodeenrollment.Option) bool {
		req, err := creds.CreateFetchNodeCredentialsRequest(ctx, nodeenrollment.WithActivationToken(token))
		if err != nil {
			panic(err)
		}
		resp, err := FetchNodeCredentials(ctx, st, req, append(append([]nodeenrollment.Option{}, fopts...), extra...)...)
		return vfIssued(resp, err)
	}
	nodeA := newNode()
	tFirst := vf.Now()
	// the first use may be a fetch that was told not to persist the node record: it still uses the token up
	skip := vf.Bool("first-use-with-skip-storage")
	first := fetch(nodeA, nodeenrollment.WithSkipStorage(skip))
	recordsAfterFirst := st.Count(vfs.KindNode)
	second := false
	if vf.Bool("second-use-by-the-same-node") {
		second = fetch(nodeA)
	} else {
		second = fetch(newNode())
	}
	vf.Assume(vf.TimeLE(vf.Now(), t0.Add(time.Second)))
	if first {
		vf.Reach("first-use-enrolled")
		vf.Assert("enrolled-only-while-unexpired", vf.TimeLE(tFirst, created.Add(maxLife)))
		vf.Assert("exactly-one-record", recordsAfterFirst == 1 || (skip && recordsAfterFirst == 0))
	} else {
		vf.Reach("first-use-refused")
		vf.Assert("refused-use-creates-no-record", recordsAfterFirst == 0)
		vf.Assert("fresh-token-is-honoured", vf.Not(vf.TimeLE(t0.Add(time.Second), t0.Add(maxLife))))
	}
	vf.Assert("second-use-never-enrolls", !second)
	vf.Assert("second-use-creates-no-record", st.Count(vfs.KindNode) == recordsAfterFirst)
	vf.Assert("token-record-gone-after-use", vf.Implies(first, st.Count(vfs.KindToken) == 0))
}

// vfToken stores a token record as the library would have, for the token (nonce, hmacKey), created at `created`.
func vfToken(ctx context.Context, st nodeenrollment.Storage, nonce, hmacKey []byte, created time.Time, opts []nodeenrollment.Option) (id string, presented []byte) {
	id = base58.FastBase58Encoding(hmac.New(sha256.New, hmacKey).Sum(nonce))
	if err := (&types.ServerLedActivationToken{Id: id, CreationTime: timestamppb.New(created)}).Store(ctx, st, opts...); err != nil {
		panic(err)
	}
	presented, err := proto.Marshal(&types.ServerLedActivationTokenNonce{Nonce: nonce, HmacKeyBytes: hmacKey})
	if err != nil {
		panic(err)
	}
	return id, presented
}

// C06 (no enrollment over an existing record): an unused, unexpired token presented with a key that already has
// a node record fails and leaves that record exactly as it was - with and without a storage wrapper.
func VerifC06ExistingKey() {
	ctx := context.Background()
	st := &vfs.Storage{}
	t0 := vf.Now()
	vf.ShortScenario(t0, time.Second)
	opts := vfStorageOpts(vf.Bool("storage-wrapper"))
	vfs.StoreRoots(ctx, st, t0, opts...)
	nonce, hkey := vf.Bytes("token-nonce", 32), vf.Bytes("token-hmac-key", 32)
	vf.Assume(vf.And(len(nonce) == 32, len(hkey) == 32))
	tokenId, presented := vfToken(ctx, st, nonce, hkey, t0.Add(-time.Minute), opts)
	// the key's existing record, stored by the library's own Store with the same options
	key := 2
	existing := vf.Bool("key-already-has-record")
	keyId, _ := nodeenrollment.KeyIdFromPkix(vf.Pkix(key))
	if existing {
		rec := &types.NodeInformation{Id: keyId, CertificatePublicKeyPkix: vf.Pkix(key), CertificatePublicKeyType: types.KEYTYPE_ED25519,
			EncryptionPublicKeyBytes: vf.X25519Pub(0), EncryptionPublicKeyType: types.KEYTYPE_X25519, RegistrationNonce: vf.Bytes("old-nonce", 32),
			ServerEncryptionPrivateKeyBytes: vf.X25519Priv(9), ServerEncryptionPrivateKeyType: types.KEYTYPE_X25519}
		if err := rec.Store(ctx, st, opts...); err != nil {
			panic(err)
		}
	}
	snap := st.Snapshot()
	req := vfSignedRequest(t0, key, presented, vf.X25519Pub(1), nil)
	resp, err := FetchNodeCredentials(ctx, st, req, opts...)
	vf.Assume(vf.TimeLE(vf.Now(), t0.Add(time.Second)))
	if vfIssued(resp, err) {
		vf.Reach("enrolled")
		vf.Assert("never-enrolls-a-key-that-already-has-a-record", !existing)
		vf.Assert("token-consumed", !st.Has(vfs.KindToken, tokenId))
	} else {
		vf.Reach("refused")
		vf.Assert("fresh-token-for-a-new-key-is-honoured", existing)
		vf.Assert("existing-record-unchanged", st.KindSameAs(vfs.KindNode, snap))
	}
}

// C06 (sealed creation time): two stored tokens A and B with arbitrary creation instants. The adversary may edit
// A's stored record before A is presented. With a storage wrapper, A enrolls only if A's own sealed creation
// time is within the maximum lifetime, and values sealed for B never open for A.
func VerifC06Tamper() {
	ctx := context.Background()
	st := &vfs.Storage{}
	t0 := vf.Now()
	vf.ShortScenario(t0, time.Second)
	wrapped := vf.Bool("storage-wrapper")
	opts := vfStorageOpts(wrapped)
	vfs.StoreRoots(ctx, st, t0, opts...)
	createdA, createdB := vf.TimeFromNow("created-A", t0), vf.TimeFromNow("created-B", t0)
	vf.Assume(vf.And(vf.TimeLE(createdA, t0), vf.TimeLE(createdB, t0)))
	nA, hA := vf.Bytes("A-nonce", 32), vf.Bytes("A-hmac-key", 32)
	nB, hB := vf.Bytes("B-nonce", 32), vf.Bytes("B-hmac-key", 32)
	vf.Assume(vf.And(vf.And(len(nA) == 32, len(hA) == 32), vf.And(len(nB) == 32, len(hB) == 32)))
	vf.Assume(vf.Not(vf.And(vf.EqBytes(nA, nB), vf.EqBytes(hA, hB))))
	idA, presentedA := vfToken(ctx, st, nA, hA, createdA, opts)
	idB, _ := vfToken(ctx, st, nB, hB, createdB, opts)
	vf.Assert("token-ids-differ", idA != idB)
	// what is persisted for A is not enough to rebuild the token: the HMAC key is never stored
	storedA := new(types.ServerLedActivationToken)
	if err := proto.Unmarshal(st.Get(vfs.KindToken, idA), storedA); err != nil {
		panic(err)
	}
	vf.Assert("hmac-key-never-persisted", vf.SecretFree(storedA, hA))
	storedB := new(types.ServerLedActivationToken)
	if err := proto.Unmarshal(st.Get(vfs.KindToken, idB), storedB); err != nil {
		panic(err)
	}
	tamper := vf.Int("tamper", 0, 5)
	switch tamper {
	case 1: // B's sealed creation time moved into A's record
		storedA.CreationTimeMarshaled = storedB.CreationTimeMarshaled
	case 2: // B's whole record (id field and all) filed under A's storage key
		storedA = storedB
	case 3: // a clear-text creation time written next to the sealed one
		storedA.CreationTime = timestamppb.New(t0)
	case 4: // the creation time re-sealed by someone who does not hold the storage wrapper
		fresh, err := proto.Marshal(timestamppb.New(t0))
		if err != nil {
			panic(err)
		}
		blob, err := vfAeadWrapper("storage", 6).Encrypt(ctx, fresh)
		if err != nil {
			panic(err)
		}
		if storedA.CreationTimeMarshaled, err = proto.Marshal(blob); err != nil {
			panic(err)
		}
	case 5: // the record replaced by an unsealed one carrying a fresh clear-text creation time
		fresh, err := proto.Marshal(timestamppb.New(t0))
		if err != nil {
			panic(err)
		}
		storedA = &types.ServerLedActivationToken{Id: idA, CreationTimeMarshaled: fresh}
	}
	if tamper != 0 {
		b, err := proto.Marshal(storedA)
		if err != nil {
			panic(err)
		}
		st.Tamper(vfs.KindToken, idA, b)
	}
	maxLife := vf.Dur("max-lifetime", 0, 1000000000000000)
	req := vfSignedRequest(t0, 2, presentedA, vf.X25519Pub(1), nil)
	fopts := append(append([]nodeenrollment.Option{}, opts...), nodeenrollment.WithMaximumServerLedActivationTokenLifetime(maxLife))
	tStart := vf.Now()
	resp, err := FetchNodeCredentials(ctx, st, req, fopts...)
	tEnd := vf.Now()
	vf.Assume(vf.TimeLE(tEnd, t0.Add(time.Second)))
	if vfIssued(resp, err) {
		vf.Reach("enrolled")
		if wrapped && tamper == 5 {
			vf.Assert("clear-text-replacement-record-cannot-extend-expiry", vf.TimeLE(tStart, createdA.Add(maxLife)))
		} else if wrapped {
			vf.Assert("sealed-expiry-governs", vf.TimeLE(tStart, createdA.Add(maxLife)))
			vf.Assert("sealed-values-do-not-move-between-tokens", vf.And(tamper != 1, vf.And(tamper != 2, tamper != 4)))
		} else if tamper == 0 {
			vf.Assert("expiry-governs", vf.TimeLE(tStart, createdA.Add(maxLife)))
		}
	} else {
		vf.Reach("refused")
		if tamper == 0 || (wrapped && tamper == 3) {
			vf.Assert("unexpired-token-is-honoured", vf.Not(vf.TimeLE(tEnd, createdA.Add(maxLife))))
		}
		vf.Assert("refusal-creates-no-record", st.Count(vfs.KindNode) == 0)
	}
}
