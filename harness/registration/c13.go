//go:build verif

package registration

import (
	"context"
	"errors"
	"time"

	"github.com/hashicorp/nodeenrollment"
	"github.com/hashicorp/nodeenrollment/types"
	"github.com/hashicorp/nodeenrollment/zzverif/vf"
	"github.com/hashicorp/nodeenrollment/zzverif/vfs"
	"google.golang.org/protobuf/proto"
)

func init() { VfHarnesses["VerifC13TokenFetchFaults"] = VerifC13TokenFetchFaults }

type vfFaulty struct {
	inner  *vfs.Storage
	n      int
	failAt int
	kind   int
	hit    bool
}

func (f *vfFaulty) fault() error {
	i := f.n
	f.n++
	if i == f.failAt {
		f.hit = true
		switch f.kind {
		case 0:
			return errors.New("injected storage fault")
		case 1:
			return nodeenrollment.ErrNotFound
		default:
			return context.Canceled
		}
	}
	return nil
}
func (f *vfFaulty) Store(ctx context.Context, m nodeenrollment.MessageWithId) error {
	if err := f.fault(); err != nil {
		return err
	}
	return f.inner.Store(ctx, m)
}
func (f *vfFaulty) Load(ctx context.Context, m nodeenrollment.MessageWithId) error {
	if err := f.fault(); err != nil {
		return err
	}
	return f.inner.Load(ctx, m)
}
func (f *vfFaulty) Remove(ctx context.Context, m nodeenrollment.MessageWithId) error {
	if err := f.fault(); err != nil {
		return err
	}
	return f.inner.Remove(ctx, m)
}
func (f *vfFaulty) List(ctx context.Context, m proto.Message) ([]string, error) {
	if err := f.fault(); err != nil {
		return nil, err
	}
	return f.inner.List(ctx, m)
}

// C13 for the activation-token fetch: one failing storage operation at a symbolic position during
// FetchNodeCredentials with a valid token.
func VerifC13TokenFetchFaults() {
	ctx := context.Background()
	inner := &vfs.Storage{}
	t0 := vf.Now()
	vf.ShortScenario(t0, time.Second)
	vfs.StoreRoots(ctx, inner, t0)
	_, token, err := CreateServerLedActivationToken(ctx, inner, &types.ServerLedRegistrationRequest{})
	vf.Assert("token-created", err == nil)
	creds, err := types.NewNodeCredentials(ctx, &vfs.Storage{}, nodeenrollment.WithActivationToken(token))
	vf.Assert("node-creds", err == nil)
	req, err := creds.CreateFetchNodeCredentialsRequest(ctx, nodeenrollment.WithActivationToken(token))
	vf.Assert("fetch-req", err == nil)
	vf.Assume(vf.TimeLE(vf.Now(), t0.Add(time.Second)))

	const maxOps = 8
	f := &vfFaulty{inner: inner, failAt: vf.Int("fail-at", -1, maxOps), kind: vf.Int("error-kind", 0, 2)}
	resp, err := FetchNodeCredentials(ctx, f, req)
	vf.Assume(vf.TimeLE(vf.Now(), t0.Add(2*time.Second)))
	vf.Bound("op-count-within-bound", f.n <= maxOps)
	issued := err == nil && resp != nil && len(resp.EncryptedNodeCredentials) > 0
	records, tokens := inner.Count(vfs.KindNode), inner.Count(vfs.KindToken)
	if f.hit {
		vf.Reach("fault-hit")
	}
	if issued {
		vf.Reach("issued")
		vf.Assert("issued-implies-record-persisted", records == 1)
	} else {
		vf.Reach("not-issued")
		vf.Assert("no-credentials-in-a-failed-reply", resp == nil || len(resp.EncryptedNodeCredentials) == 0)
	}
	vf.Assert("consumed-token-is-never-left-usable", vf.Implies(records == 1, tokens == 0))
	vf.Assert("no-fault-means-success", vf.Implies(!f.hit, issued))
}
