//go:build verif

package registration

import (
	"context"
	"crypto/rand"
	"crypto/x509"
	"crypto/x509/pkix"
	"math/big"
	"time"

	"github.com/hashicorp/nodeenrollment"
	"github.com/hashicorp/nodeenrollment/types"
	"github.com/hashicorp/nodeenrollment/zzverif/vf"
	"google.golang.org/protobuf/proto"
	"google.golang.org/protobuf/types/known/timestamppb"
)

func init() { VfHarnesses["VerifC01NodeLed"] = VerifC01NodeLed }

// ---- marshal-based storage, like the real back ends ----
type vfEntry struct {
	kind int
	id   string
	data []byte
}
type vfStorage struct{ entries []vfEntry }

func vfKind(m proto.Message) int {
	switch m.(type) {
	case *types.NodeInformation:
		return 1
	case *types.RootCertificates:
		return 2
	case *types.NodeCredentials:
		return 3
	case *types.ServerLedActivationToken:
		return 4
	}
	return 0
}
func (s *vfStorage) Store(ctx context.Context, m nodeenrollment.MessageWithId) error {
	b, err := proto.Marshal(m)
	if err != nil {
		return err
	}
	k := vfKind(m)
	for i := range s.entries {
		if s.entries[i].kind == k && s.entries[i].id == m.GetId() {
			s.entries[i].data = b
			return nil
		}
	}
	s.entries = append(s.entries, vfEntry{k, m.GetId(), b})
	return nil
}
func (s *vfStorage) Load(ctx context.Context, m nodeenrollment.MessageWithId) error {
	k := vfKind(m)
	for _, e := range s.entries {
		if e.kind == k && e.id == m.GetId() {
			return proto.Unmarshal(e.data, m)
		}
	}
	return nodeenrollment.ErrNotFound
}
func (s *vfStorage) Remove(ctx context.Context, m nodeenrollment.MessageWithId) error {
	k := vfKind(m)
	for i := range s.entries {
		if s.entries[i].kind == k && s.entries[i].id == m.GetId() {
			s.entries = append(s.entries[:i], s.entries[i+1:]...)
			return nil
		}
	}
	return nil
}
func (s *vfStorage) List(ctx context.Context, m proto.Message) ([]string, error)     { return nil, nil }


func (s *vfStorage) count(kind int) int {
	n := 0
	for _, e := range s.entries {
		if e.kind == kind {
			n++
		}
	}
	return n
}

func vfStoreRoots(ctx context.Context, st *vfStorage, t0 time.Time) {
	mk := func(id string, k int) *types.RootCertificate {
		tmpl := &x509.Certificate{SubjectKeyId: vf.Pkix(k), Subject: pkix.Name{CommonName: "root"}, SerialNumber: big.NewInt(1),
			NotBefore: t0.Add(-time.Hour), NotAfter: t0.Add(time.Hour), IsCA: true, BasicConstraintsValid: true}
		priv, _ := x509.ParsePKCS8PrivateKey(vf.Pkcs8(k))
		pub, _ := x509.ParsePKIXPublicKey(vf.Pkix(k))
		der, err := x509.CreateCertificate(rand.Reader, tmpl, tmpl, pub, priv)
		if err != nil {
			panic(err)
		}
		return &types.RootCertificate{Id: id, PublicKeyPkix: vf.Pkix(k), PrivateKeyPkcs8: vf.Pkcs8(k), PrivateKeyType: types.KEYTYPE_ED25519,
			CertificateDer: der, NotBefore: timestamppb.New(tmpl.NotBefore), NotAfter: timestamppb.New(tmpl.NotAfter)}
	}
	if err := (&types.RootCertificates{Id: nodeenrollment.RootsMessageId, Current: mk("current", 0), Next: mk("next", 1)}).Store(ctx, st); err != nil {
		panic(err)
	}
}

// C01, clause (a): with a 32-byte nonce and no wrapped info, credentials are issued only to the
// request whose certificate key, nonce and encryption key equal those of a stored record; every
// other well-signed request gets the empty response or an error and creates no record.
func VerifC01NodeLed() {
	ctx := context.Background()
	st := &vfStorage{}
	t0 := vf.Now()
	// roots (only needed to sign the response)
	mk := func(id string, k int) *types.RootCertificate {
		tmpl := &x509.Certificate{SubjectKeyId: vf.Pkix(k), Subject: pkix.Name{CommonName: "root"}, SerialNumber: big.NewInt(1),
			NotBefore: t0.Add(-time.Hour), NotAfter: t0.Add(time.Hour), IsCA: true, BasicConstraintsValid: true}
		priv, _ := x509.ParsePKCS8PrivateKey(vf.Pkcs8(k))
		pub, _ := x509.ParsePKIXPublicKey(vf.Pkix(k))
		der, err := x509.CreateCertificate(rand.Reader, tmpl, tmpl, pub, priv)
		if err != nil {
			panic(err)
		}
		return &types.RootCertificate{Id: id, PublicKeyPkix: vf.Pkix(k), PrivateKeyPkcs8: vf.Pkcs8(k), PrivateKeyType: types.KEYTYPE_ED25519,
			CertificateDer: der, NotBefore: timestamppb.New(tmpl.NotBefore), NotAfter: timestamppb.New(tmpl.NotAfter)}
	}
	if err := (&types.RootCertificates{Id: nodeenrollment.RootsMessageId, Current: mk("current", 0), Next: mk("next", 1)}).Store(ctx, st); err != nil {
		panic(err)
	}
	// one authorised node: arbitrary key of the universe, arbitrary nonce and encryption key
	hasRec := vf.Bool("record-present")
	recKey := vf.Int("reckey", 2, 4)
	recNonce := vf.Bytes("recnonce", 32)
	recEnc := vf.X25519Pub(vf.Int("recenc", 0, 1))
	if hasRec {
		id, _ := nodeenrollment.KeyIdFromPkix(vf.Pkix(recKey))
		rec := &types.NodeInformation{Id: id, CertificatePublicKeyPkix: vf.Pkix(recKey), CertificatePublicKeyType: types.KEYTYPE_ED25519,
			EncryptionPublicKeyBytes: recEnc, EncryptionPublicKeyType: types.KEYTYPE_X25519, RegistrationNonce: recNonce,
			ServerEncryptionPrivateKeyBytes: vf.X25519Priv(9), ServerEncryptionPrivateKeyType: types.KEYTYPE_X25519}
		if err := rec.Store(ctx, st); err != nil {
			panic(err)
		}
	}
	before := st.count(1)
	// a well-signed request with arbitrary key / nonce / encryption key
	reqKey := vf.Int("reqkey", 2, 4)
	reqNonce := vf.Bytes("reqnonce", 32)
	vf.Assume(len(reqNonce) == nodeenrollment.NonceSize)
	reqEnc := vf.X25519Pub(vf.Int("reqenc", 0, 1))
	info := &types.FetchNodeCredentialsInfo{CertificatePublicKeyPkix: vf.Pkix(reqKey), CertificatePublicKeyType: types.KEYTYPE_ED25519,
		Nonce: reqNonce, EncryptionPublicKeyBytes: reqEnc, EncryptionPublicKeyType: types.KEYTYPE_X25519,
		NotBefore: timestamppb.New(t0.Add(-time.Hour)), NotAfter: timestamppb.New(t0.Add(time.Hour))}
	bundle, _ := proto.Marshal(info)
	req := &types.FetchNodeCredentialsRequest{Bundle: bundle, BundleSignature: vf.SigBy(reqKey, bundle)}

	resp, err := FetchNodeCredentials(ctx, st, req)
	vf.Assume(vf.TimeLE(vf.Now(), t0.Add(time.Second))) // clock assumption: the call is short
	issued := err == nil && resp != nil && len(resp.EncryptedNodeCredentials) > 0
	authorised := vf.And(hasRec, vf.And(reqKey == recKey, vf.And(vf.EqBytes(reqNonce, recNonce), vf.EqBytes(reqEnc, recEnc))))
	if issued {
		vf.Reach("issued")
		vf.Assert("issued-only-if-authorised", authorised)
	} else {
		vf.Reach("not-issued")
		vf.Assert("authorised-request-is-served", vf.Not(authorised))
	}
	vf.Assert("no-new-node-record", st.count(1) == before)
}
