//go:build verif

package registration

import (
	"context"
	"strings"
	"time"

	wrapping "github.com/hashicorp/go-kms-wrapping/v2"
	"github.com/hashicorp/go-kms-wrapping/v2/aead"
	"github.com/hashicorp/nodeenrollment"
	"github.com/hashicorp/nodeenrollment/types"
	"github.com/hashicorp/nodeenrollment/zzverif/vf"
	"github.com/hashicorp/nodeenrollment/zzverif/vfs"
	"github.com/mr-tron/base58"
	"google.golang.org/protobuf/proto"
	"google.golang.org/protobuf/types/known/timestamppb"
)

func init() {
	VfHarnesses["VerifC01NodeLed"] = VerifC01NodeLed
	VfHarnesses["VerifC01Token"] = VerifC01Token
	VfHarnesses["VerifC01Wrapped"] = VerifC01Wrapped
	VfHarnesses["VerifC01Rewrapped"] = VerifC01Rewrapped
}

// vfAeadWrapper is a real aead wrapper keyed with universe key k (its own code runs from SSA).
func vfAeadWrapper(keyId string, k int) wrapping.Wrapper {
	w := aead.NewWrapper()
	if _, err := w.SetConfig(context.Background(), wrapping.WithKeyId(keyId)); err != nil {
		panic(err)
	}
	if err := w.SetAesGcmKeyBytes(vf.X25519Priv(k)); err != nil {
		panic(err)
	}
	return w
}

// vfRecord stores an authorised node record for universe key k as AuthorizeNode would leave it.
func vfRecord(ctx context.Context, st nodeenrollment.Storage, k int, nonce, encPub []byte, serverPriv int) *types.NodeInformation {
	id, err := nodeenrollment.KeyIdFromPkix(vf.Pkix(k))
	if err != nil {
		panic(err)
	}
	rec := &types.NodeInformation{Id: id, CertificatePublicKeyPkix: vf.Pkix(k), CertificatePublicKeyType: types.KEYTYPE_ED25519,
		EncryptionPublicKeyBytes: encPub, EncryptionPublicKeyType: types.KEYTYPE_X25519, RegistrationNonce: nonce,
		ServerEncryptionPrivateKeyBytes: vf.X25519Priv(serverPriv), ServerEncryptionPrivateKeyType: types.KEYTYPE_X25519}
	if err := rec.Store(ctx, st); err != nil {
		panic(err)
	}
	return rec
}

// vfSignedRequest builds a well-signed fetch request (the only thing the server checks about the signature
// is that it is by the key named inside the bundle; forged signatures are C03).
func vfSignedRequest(t0 time.Time, key int, nonce, encPub, wrapped []byte) *types.FetchNodeCredentialsRequest {
	return vfSignedRequestX(t0, key, nonce, encPub, wrapped, false)
}

// vfSignedRequestX: with selfAsserted, the requester also fills the bundle fields an honest node leaves empty -
// the "decrypted registration info" slot (with its own nonce and key, as if someone had already unwrapped it), a
// key ID of its choosing and a previous certificate key. They are inside the signed bundle, so they are the
// requester's own words and must authorise nothing.
func vfSignedRequestX(t0 time.Time, key int, nonce, encPub, wrapped []byte, selfAsserted bool) *types.FetchNodeCredentialsRequest {
	info := &types.FetchNodeCredentialsInfo{CertificatePublicKeyPkix: vf.Pkix(key), CertificatePublicKeyType: types.KEYTYPE_ED25519,
		Nonce: nonce, EncryptionPublicKeyBytes: encPub, EncryptionPublicKeyType: types.KEYTYPE_X25519,
		NotBefore: timestamppb.New(t0.Add(-time.Hour)), NotAfter: timestamppb.New(t0.Add(time.Hour)), WrappedRegistrationInfo: wrapped}
	if selfAsserted {
		info.WrappingRegistrationFlowInfo = &types.WrappingRegistrationFlowInfo{Nonce: nonce, CertificatePublicKeyPkix: vf.Pkix(key)}
		info.Id = "an-id-the-requester-made-up"
		info.PreviousCertificatePublicKeyPkix = vf.Pkix(5)
	}
	bundle, err := proto.Marshal(info)
	if err != nil {
		panic(err)
	}
	return &types.FetchNodeCredentialsRequest{Bundle: bundle, BundleSignature: vf.SigBy(key, bundle)}
}

func vfIssued(resp *types.FetchNodeCredentialsResponse, err error) bool {
	return err == nil && resp != nil && len(resp.EncryptedNodeCredentials) > 0
}

// C01, clause (a): with a 32-byte nonce and no wrapped info, credentials are issued only to the
// request whose certificate key, nonce and encryption key equal those of a stored record; every
// other well-signed request gets the empty response or an error, and storage is left exactly as it was.
// Inductive-step form: the storage holds an arbitrary authorised record (any key of the universe, any
// nonce, any encryption key) or none, plus an unrelated node's record.
func VerifC01NodeLed() {
	ctx := context.Background()
	st := &vfs.Storage{}
	t0 := vf.Now()
	vf.ShortScenario(t0, time.Second)
	vfs.StoreRoots(ctx, st, t0)
	vfRecord(ctx, st, 5, vf.Bytes("othernonce", 32), vf.X25519Pub(2), 8) // an unrelated node
	hasRec := vf.Bool("record-present")
	recKey := vf.Int("reckey", 2, 4)
	recNonce := vf.Bytes("recnonce", 32)
	recEnc := vf.X25519Pub(vf.Int("recenc", 0, 1))
	if hasRec {
		vfRecord(ctx, st, recKey, recNonce, recEnc, 9)
	}
	snap := st.Snapshot()
	reqKey := vf.Int("reqkey", 2, 4)
	reqNonce := vf.Bytes("reqnonce", 32)
	vf.Assume(len(reqNonce) == nodeenrollment.NonceSize)
	reqEnc := vf.X25519Pub(vf.Int("reqenc", 0, 1))
	req := vfSignedRequestX(t0, reqKey, reqNonce, reqEnc, nil, vf.Bool("requester-fills-the-unused-bundle-fields"))

	resp, err := FetchNodeCredentials(ctx, st, req)
	vf.Assume(vf.TimeLE(vf.Now(), t0.Add(time.Second))) // clock assumption: the call is short
	issued := vfIssued(resp, err)
	authorised := vf.And(hasRec, vf.And(reqKey == recKey, vf.And(vf.EqBytes(reqNonce, recNonce), vf.EqBytes(reqEnc, recEnc))))
	if issued {
		vf.Reach("issued")
		vf.Assert("issued-only-if-authorised", authorised)
	} else {
		vf.Reach("not-issued")
		vf.Assert("authorised-request-is-served", vf.Not(authorised))
		vf.Assert("refusal-is-empty-or-error", err != nil || len(resp.EncryptedNodeCredentials) == 0)
	}
	vf.Assert("storage-unchanged", st.SameAs(snap))
}

// C01, clause (b): a token-shaped nonce enrolls only if it is exactly a token this server created whose
// record is still present (unused), unexpired at the time of the call, and the key has no record yet.
func VerifC01Token() {
	ctx := context.Background()
	st := &vfs.Storage{}
	t0 := vf.Now()
	vf.ShortScenario(t0, time.Second)
	vfs.StoreRoots(ctx, st, t0)
	tokenId, token, err := CreateServerLedActivationToken(ctx, st, &types.ServerLedRegistrationRequest{})
	if err != nil {
		panic(err)
	}
	raw, err := base58.FastBase58Decoding(strings.TrimPrefix(token, nodeenrollment.ServerLedActivationTokenPrefix))
	if err != nil {
		panic(err)
	}
	stored, err := types.LoadServerLedActivationToken(ctx, st, tokenId)
	if err != nil {
		panic(err)
	}
	created := stored.CreationTime.AsTime()
	// operator / earlier history: the token may already have been consumed, the key may already be enrolled
	present := vf.Bool("token-record-present")
	if !present {
		if err := st.Remove(ctx, &types.ServerLedActivationToken{Id: tokenId}); err != nil {
			panic(err)
		}
	}
	reqKey := vf.Int("reqkey", 2, 3)
	keyHasRecord := vf.Bool("key-already-has-record")
	if keyHasRecord {
		vfRecord(ctx, st, reqKey, vf.Bytes("recnonce", 32), vf.X25519Pub(0), 9)
	}
	// what the node presents as its nonce: the token, or the token with either half replaced
	nonce := raw
	variant := vf.Int("nonce-variant", 0, 2)
	if variant != 0 {
		tn := new(types.ServerLedActivationTokenNonce)
		if err := proto.Unmarshal(raw, tn); err != nil {
			panic(err)
		}
		other := vf.Bytes("other-half", 32)
		vf.Assume(len(other) == 32)
		if variant == 1 {
			vf.Assume(vf.Not(vf.EqBytes(other, tn.Nonce)))
			tn.Nonce = other
		} else {
			vf.Assume(vf.Not(vf.EqBytes(other, tn.HmacKeyBytes)))
			tn.HmacKeyBytes = other
		}
		if nonce, err = proto.Marshal(tn); err != nil {
			panic(err)
		}
	}
	maxLife := vf.Dur("max-token-lifetime", -1000000000000000, 1000000000000000)
	snap := st.Snapshot()
	req := vfSignedRequest(t0, reqKey, nonce, vf.X25519Pub(1), nil)
	tStart := vf.Now()
	resp, err := FetchNodeCredentials(ctx, st, req, nodeenrollment.WithMaximumServerLedActivationTokenLifetime(maxLife))
	tEnd := vf.Now()
	vf.Assume(vf.TimeLE(tEnd, t0.Add(time.Second)))
	issued := vfIssued(resp, err)
	keyId, _ := nodeenrollment.KeyIdFromPkix(vf.Pkix(reqKey))
	if issued {
		vf.Reach("issued")
		vf.Assert("issued-only-for-the-servers-own-token", variant == 0)
		vf.Assert("issued-only-for-an-unused-token", present)
		vf.Assert("issued-only-for-a-key-without-record", !keyHasRecord)
		vf.Assert("issued-only-while-unexpired", vf.TimeLE(tStart, created.Add(maxLife)))
		vf.Assert("record-created-for-the-request-key", vf.And(st.Has(vfs.KindNode, keyId), st.Count(vfs.KindNode) == 1))
		vf.Assert("token-consumed", !st.Has(vfs.KindToken, tokenId))
	} else {
		vf.Reach("not-issued")
		vf.Assert("valid-token-is-honoured", vf.Not(vf.And(vf.And(variant == 0, present), vf.And(!keyHasRecord, vf.TimeLE(tEnd, created.Add(maxLife))))))
		vf.Assert("no-new-node-record", st.KindSameAs(vfs.KindNode, snap))
	}
}

// C01, clause (c), wrapper flow: registration info sealed by the server's registration wrapper enrolls the
// request it names; info sealed by anyone else, raw bytes, or info naming another nonce/key does not.
func VerifC01Wrapped() {
	ctx := context.Background()
	st := &vfs.Storage{}
	t0 := vf.Now()
	vf.ShortScenario(t0, time.Second)
	vfs.StoreRoots(ctx, st, t0)
	serverWrapper, foreignWrapper := vfAeadWrapper("reg", 6), vfAeadWrapper("reg", 7)
	reqKey := vf.Int("reqkey", 2, 3)
	reqNonce := vf.Bytes("reqnonce", 40) // the wrapper flow does not constrain the nonce length
	vf.Assume(len(reqNonce) >= 1)
	innerNonce, innerKey := reqNonce, reqKey
	if !vf.Bool("inner-nonce-matches") {
		innerNonce = vf.Bytes("inner-nonce", 40)
		vf.Assume(vf.Not(vf.EqBytes(innerNonce, reqNonce)))
	}
	if !vf.Bool("inner-key-matches") {
		innerKey = vf.Int("inner-key", 2, 4)
		vf.Assume(innerKey != reqKey)
	}
	infoBytes, err := proto.Marshal(&types.WrappingRegistrationFlowInfo{Nonce: innerNonce, CertificatePublicKeyPkix: vf.Pkix(innerKey)})
	if err != nil {
		panic(err)
	}
	sealer := vf.Int("sealed-by", 0, 3) // 0: the server's wrapper, 1: a foreign wrapper, 2: garbage, 3: a well-formed blob with an arbitrary ciphertext
	var wrapped []byte
	switch sealer {
	case 0, 1:
		w := serverWrapper
		if sealer == 1 {
			w = foreignWrapper
		}
		blob, err := w.Encrypt(ctx, infoBytes)
		if err != nil {
			panic(err)
		}
		if wrapped, err = proto.Marshal(blob); err != nil {
			panic(err)
		}
	case 2:
		wrapped = vf.Garbage("garbage-wrapped-info", 64)
	default:
		if wrapped, err = proto.Marshal(&wrapping.BlobInfo{Ciphertext: vf.Bytes("forged-ciphertext", 40)}); err != nil {
			panic(err)
		}
	}
	configured := vf.Bool("registration-wrapper-configured")
	var opts []nodeenrollment.Option
	if configured {
		opts = append(opts, nodeenrollment.WithRegistrationWrapper(serverWrapper))
	}
	if vf.Bool("key-already-has-record") {
		vfRecord(ctx, st, reqKey, vf.Bytes("recnonce", 32), vf.X25519Pub(0), 9)
	}
	snap := st.Snapshot()
	req := vfSignedRequestX(t0, reqKey, reqNonce, vf.X25519Pub(1), wrapped, vf.Bool("requester-fills-the-unused-bundle-fields"))
	resp, err := FetchNodeCredentials(ctx, st, req, opts...)
	vf.Assume(vf.TimeLE(vf.Now(), t0.Add(time.Second)))
	issued := vfIssued(resp, err)
	legit := vf.And(vf.And(configured, sealer == 0), vf.And(vf.EqBytes(innerNonce, reqNonce), innerKey == reqKey))
	if issued {
		vf.Reach("issued")
		vf.Assert("issued-only-for-info-sealed-by-the-server-and-matching", legit)
	} else {
		vf.Reach("not-issued")
		vf.Assert("matching-sealed-info-is-honoured", vf.Not(legit))
		vf.Assert("no-new-node-record", st.KindSameAs(vfs.KindNode, snap))
	}
}

// C01, clause (c), re-wrapped flow: registration info re-sealed under the key shared with an already
// registered node (named by the re-wrapping key ID) enrolls the request it names; info sealed under any
// other key, naming an unknown node, or naming another nonce/key does not.
func VerifC01Rewrapped() {
	ctx := context.Background()
	st := &vfs.Storage{}
	t0 := vf.Now()
	vf.ShortScenario(t0, time.Second)
	vfs.StoreRoots(ctx, st, t0)
	// the registered intermediary: certificate key 4, encryption key pair 0, server side key pair 9
	mid := vfRecord(ctx, st, 4, vf.Bytes("midnonce", 32), vf.X25519Pub(0), 9)
	reqKey := vf.Int("reqkey", 2, 3)
	reqNonce := vf.Bytes("reqnonce", 40)
	vf.Assume(len(reqNonce) >= 1)
	innerNonce, innerKey := reqNonce, reqKey
	if !vf.Bool("inner-nonce-matches") {
		innerNonce = vf.Bytes("inner-nonce", 40)
		vf.Assume(vf.Not(vf.EqBytes(innerNonce, reqNonce)))
	}
	if !vf.Bool("inner-key-matches") {
		innerKey = vf.Int("inner-key", 2, 4)
		vf.Assume(innerKey != reqKey)
	}
	info := &types.WrappingRegistrationFlowInfo{Nonce: innerNonce, CertificatePublicKeyPkix: vf.Pkix(innerKey)}
	// who re-seals: the intermediary's own credentials, or credentials that derive another shared key
	sealerPriv := vf.Int("sealer-encryption-key", 0, 1)
	sealer := &types.NodeCredentials{CertificatePublicKeyPkix: vf.Pkix(4), EncryptionPrivateKeyBytes: vf.X25519Priv(sealerPriv), EncryptionPrivateKeyType: types.KEYTYPE_X25519,
		ServerEncryptionPublicKeyBytes: vf.X25519Pub(9), ServerEncryptionPublicKeyType: types.KEYTYPE_X25519}
	rewrapped, err := nodeenrollment.EncryptMessage(ctx, info, sealer)
	if err != nil {
		panic(err)
	}
	named := mid.Id
	namesKnown := vf.Bool("rewrapping-key-id-names-the-intermediary")
	if !namesKnown {
		named, _ = nodeenrollment.KeyIdFromPkix(vf.Pkix(5)) // no such record
	}
	snap := st.Snapshot()
	req := vfSignedRequest(t0, reqKey, reqNonce, vf.X25519Pub(1), nil)
	req.RewrappedWrappingRegistrationFlowInfo, req.RewrappingKeyId = rewrapped, named
	resp, err := FetchNodeCredentials(ctx, st, req)
	vf.Assume(vf.TimeLE(vf.Now(), t0.Add(time.Second)))
	issued := vfIssued(resp, err)
	legit := vf.And(vf.And(namesKnown, sealerPriv == 0), vf.And(vf.EqBytes(innerNonce, reqNonce), innerKey == reqKey))
	if issued {
		vf.Reach("issued")
		vf.Assert("issued-only-for-info-resealed-by-a-registered-node-and-matching", legit)
	} else {
		vf.Reach("not-issued")
		vf.Assert("matching-resealed-info-is-honoured", vf.Not(legit))
		vf.Assert("no-new-node-record", st.KindSameAs(vfs.KindNode, snap))
	}
}
