//go:build verif

package registration

import (
	"context"

	"github.com/hashicorp/nodeenrollment"
	"github.com/hashicorp/nodeenrollment/types"
	"github.com/hashicorp/nodeenrollment/zzverif/vf"
	"google.golang.org/protobuf/proto"
	"google.golang.org/protobuf/types/known/timestamppb"
)

var VfHarnesses = map[string]func(){"VerifC03Validate": VerifC03Validate}

type vfStore struct{ writes int }

func (s *vfStore) Store(ctx context.Context, m nodeenrollment.MessageWithId) error  { s.writes++; return nil }
func (s *vfStore) Remove(ctx context.Context, m nodeenrollment.MessageWithId) error { s.writes++; return nil }
func (s *vfStore) List(ctx context.Context, m proto.Message) ([]string, error)     { return nil, nil }
func (s *vfStore) Load(ctx context.Context, m nodeenrollment.MessageWithId) error {
	return nodeenrollment.ErrNotFound
}

// C03: validation accepts only bundles signed by the key they name, with the required
// fields, inside the skew-widened validity window.
func VerifC03Validate() {
	ctx := context.Background()
	t0 := vf.Now()
	k := vf.Int("certkey", 0, 2)
	certType := vf.Int("certkeytype", 0, 3)
	encType := vf.Int("enckeytype", 0, 3)
	nonce := vf.Bytes("nonce", 64)
	encPub := vf.Bytes("encpub", 32)
	nb := vf.TimeFromNow("nb", t0)
	na := vf.TimeFromNow("na", t0)
	info := &types.FetchNodeCredentialsInfo{
		CertificatePublicKeyPkix: vf.Pkix(k),
		CertificatePublicKeyType: types.KEYTYPE(certType),
		Nonce:                    nonce,
		EncryptionPublicKeyBytes: encPub,
		EncryptionPublicKeyType:  types.KEYTYPE(encType),
		NotBefore:                timestamppb.New(nb),
		NotAfter:                 timestamppb.New(na),
	}
	bundle, _ := proto.Marshal(info)
	signed := bundle
	if vf.Bool("sig-over-other-message") {
		signed = vf.Bytes("othermsg", 8)
	}
	sigKey := vf.Int("sigkey", -1, 2)
	sig := vf.SigBy(sigKey, signed)
	nbSkew := vf.Dur("nbskew", -1000000000000000, 1000000000000000)
	naSkew := vf.Dur("naskew", -1000000000000000, 1000000000000000)
	st := &vfStore{}
	_, err := validateFetchRequestCommon(ctx, st, &types.FetchNodeCredentialsRequest{Bundle: bundle, BundleSignature: sig},
		nodeenrollment.WithNotBeforeClockSkew(nbSkew), nodeenrollment.WithNotAfterClockSkew(naSkew))
	if err == nil {
		vf.Reach("accepted")
		now := vf.ClockReading(1) // reading 0 is the harness's own, reading 1 is the library's
		vf.Assert("signed-by-the-key-in-the-bundle", vf.SigOK(k, bundle, sig))
		vf.Assert("key-types", vf.And(certType == int(types.KEYTYPE_ED25519), encType == int(types.KEYTYPE_X25519)))
		vf.Assert("required-fields", vf.And(len(nonce) > 0, len(encPub) > 0))
		vf.Assert("not-before-window", vf.TimeLE(nb.Add(nbSkew), now))
		vf.Assert("not-after-window", vf.TimeLE(now, na.Add(naSkew)))
	} else {
		vf.Reach("rejected")
	}
	vf.Assert("no-storage-write", st.writes == 0)
}
