//go:build verif

package registration

import (
	"context"
	"time"

	"github.com/hashicorp/nodeenrollment"
	"github.com/hashicorp/nodeenrollment/types"
	"github.com/hashicorp/nodeenrollment/zzverif/vf"
	"github.com/hashicorp/nodeenrollment/zzverif/vfs"
	"google.golang.org/protobuf/proto"
	"google.golang.org/protobuf/types/known/timestamppb"
)

var VfHarnesses = map[string]func(){"VerifC03Validate": VerifC03Validate, "VerifC03EntryPoints": VerifC03EntryPoints, "VerifC03NodeSide": VerifC03NodeSide}

// vfCountingStore counts every storage operation: C03 demands rejection before any authorization decision.
type vfCountingStore struct {
	vfs.Storage
	ops int
}

func (s *vfCountingStore) Store(ctx context.Context, m nodeenrollment.MessageWithId) error {
	s.ops++
	return s.Storage.Store(ctx, m)
}
func (s *vfCountingStore) Load(ctx context.Context, m nodeenrollment.MessageWithId) error {
	s.ops++
	return s.Storage.Load(ctx, m)
}
func (s *vfCountingStore) Remove(ctx context.Context, m nodeenrollment.MessageWithId) error {
	s.ops++
	return s.Storage.Remove(ctx, m)
}
func (s *vfCountingStore) List(ctx context.Context, m proto.Message) ([]string, error) {
	s.ops++
	return s.Storage.List(ctx, m)
}

// vfC03Request builds the adversary's request: every bundle field symbolic (key types as raw enum values, any
// lengths incl. 0, any window), the bytes sent either the canonical encoding or another encoding of the same
// message, and a signature that is by any key of the universe over the sent bytes / over the canonical bytes /
// over an unrelated message, or raw bytes of any length.
type vfC03 struct {
	k, certType, encType int
	nonce, encPub        []byte
	nb, na               time.Time
	sent, sig            []byte
	sigIsGenuine         bool // sig is a signature by key k over exactly the bytes sent
}

func vfC03Request(t0 time.Time) (*types.FetchNodeCredentialsRequest, *vfC03) {
	c := &vfC03{k: vf.Int("certkey", 0, 2), certType: vf.Int("certkeytype", 0, 3), encType: vf.Int("enckeytype", 0, 3),
		nonce: vf.Bytes("nonce", 64), encPub: vf.Bytes("encpub", 32), nb: vf.TimeFromNow("nb", t0), na: vf.TimeFromNow("na", t0)}
	info := &types.FetchNodeCredentialsInfo{
		CertificatePublicKeyPkix: vf.Pkix(c.k), CertificatePublicKeyType: types.KEYTYPE(c.certType),
		Nonce: c.nonce, EncryptionPublicKeyBytes: c.encPub, EncryptionPublicKeyType: types.KEYTYPE(c.encType),
		NotBefore: timestamppb.New(c.nb), NotAfter: timestamppb.New(c.na),
		// the fields validation has no business with are the requester's to fill as well: a "previous" certificate
		// key (any key of the universe, e.g. the one that actually signed) and a key ID of its choosing
		PreviousCertificatePublicKeyPkix: vf.IfBytes(vf.Bool("bundle-names-a-previous-key"), vf.Pkix(vf.Int("previous-key", 0, 2)), nil),
		Id:                               vf.String("claimed-id", 8),
	}
	canonical, err := proto.Marshal(info)
	if err != nil {
		panic(err)
	}
	c.sent = canonical
	if vf.Bool("bundle-sent-in-another-encoding") {
		c.sent = vf.NonCanonical(canonical)
	}
	switch vf.Int("signature-kind", 0, 3) {
	case 0: // by some key over the bytes sent
		sk := vf.Int("sigkey", 0, 2)
		c.sig = vf.SigBy(sk, c.sent)
		c.sigIsGenuine = sk == c.k
	case 1: // by some key over the canonical encoding (differs from the bytes sent when those are re-encoded)
		sk := vf.Int("sigkey", 0, 2)
		c.sig = vf.SigBy(sk, canonical)
		c.sigIsGenuine = vf.And(sk == c.k, vf.EqBytes(c.sent, canonical))
	case 2: // by some key over an unrelated message
		c.sig = vf.SigBy(vf.Int("sigkey", 0, 2), vf.Bytes("othermsg", 8))
	default: // raw bytes of any length, including 0 and 64
		c.sig = vf.Bytes("rawsig", 80)
	}
	return &types.FetchNodeCredentialsRequest{Bundle: c.sent, BundleSignature: c.sig}, c
}

// C03: validation accepts only bundles signed by the key they name over exactly the bytes received, with
// the required fields and supported key types, inside the skew-widened validity window.
func VerifC03Validate() {
	ctx := context.Background()
	t0 := vf.Now()
	req, c := vfC03Request(t0)
	nbSkew := vf.Dur("nbskew", -1000000000000000, 1000000000000000)
	naSkew := vf.Dur("naskew", -1000000000000000, 1000000000000000)
	st := &vfCountingStore{}
	_, err := validateFetchRequestCommon(ctx, st, req, nodeenrollment.WithNotBeforeClockSkew(nbSkew), nodeenrollment.WithNotAfterClockSkew(naSkew))
	tEnd := vf.Now()
	wellFormed := vf.And(vf.And(c.certType == int(types.KEYTYPE_ED25519), c.encType == int(types.KEYTYPE_X25519)), vf.And(len(c.nonce) > 0, len(c.encPub) > 0))
	if err == nil {
		vf.Reach("accepted")
		now := vf.ClockReading(1) // reading 0 is the harness's own, reading 1 is the library's
		vf.Assert("signed-by-the-key-in-the-bundle-over-the-bytes-received", c.sigIsGenuine)
		vf.Assert("key-types", vf.And(c.certType == int(types.KEYTYPE_ED25519), c.encType == int(types.KEYTYPE_X25519)))
		vf.Assert("required-fields", vf.And(len(c.nonce) > 0, len(c.encPub) > 0))
		vf.Assert("not-before-window", vf.TimeLE(c.nb.Add(nbSkew), now))
		vf.Assert("not-after-window", vf.TimeLE(now, c.na.Add(naSkew)))
	} else {
		vf.Reach("rejected")
		// fresh, well-formed, genuinely signed requests are processed (inclusive window, as documented)
		inWindow := vf.And(vf.TimeLE(c.nb.Add(nbSkew), t0), vf.TimeLE(tEnd, c.na.Add(naSkew)))
		vf.Assert("genuine-fresh-request-is-accepted", vf.Not(vf.And(vf.And(c.sigIsGenuine, wellFormed), inWindow)))
	}
	vf.Assert("validation-touches-no-storage", st.ops == 0)
}

// C03 through the two public entry points: a request that fails validation causes no storage operation at all
// (no authorization decision, no write), whichever entry point receives it.
func VerifC03EntryPoints() {
	ctx := context.Background()
	t0 := vf.Now()
	vf.ShortScenario(t0, time.Second)
	req, c := vfC03Request(t0)
	st := &vfCountingStore{}
	vfs.StoreRoots(ctx, &st.Storage, t0)
	vf.Assume(vf.Or(len(c.nonce) == 0, len(c.nonce) == nodeenrollment.NonceSize)) // node-led requests; tokens and wrapped info are C01/C06
	// the server's configured skews apply on either entry point
	nbSkew := vf.Dur("nbskew", -100000000000000, 100000000000000)
	naSkew := vf.Dur("naskew", -100000000000000, 100000000000000)
	opts := []nodeenrollment.Option{nodeenrollment.WithNotBeforeClockSkew(nbSkew), nodeenrollment.WithNotAfterClockSkew(naSkew)}
	shape := vf.And(vf.And(c.sigIsGenuine, vf.And(c.certType == int(types.KEYTYPE_ED25519), c.encType == int(types.KEYTYPE_X25519))), vf.And(len(c.nonce) > 0, len(c.encPub) > 0))
	// certainly inside / possibly inside the widened window, whatever instant within the scenario the library reads
	valid := vf.And(shape, vf.And(vf.TimeLE(c.nb.Add(nbSkew), t0), vf.TimeLE(t0.Add(time.Second), c.na.Add(naSkew))))
	invalid := vf.Not(vf.And(shape, vf.And(vf.TimeLE(c.nb.Add(nbSkew), t0.Add(time.Second)), vf.TimeLE(t0, c.na.Add(naSkew)))))
	if vf.Bool("via-authorize") {
		_, err := AuthorizeNode(ctx, st, req, opts...)
		if err != nil {
			vf.Reach("authorize-rejected")
			vf.Assert("rejected-authorize-writes-nothing", st.Count(vfs.KindNode) == 0)
		} else {
			vf.Reach("authorize-accepted")
		}
		vf.Assert("invalid-request-never-reaches-authorization", vf.Implies(invalid, vf.And(err != nil, st.ops == 0)))
		vf.Assert("valid-request-is-authorized", vf.Implies(vf.And(valid, len(c.encPub) == 32), err == nil))
	} else {
		resp, err := FetchNodeCredentials(ctx, st, req, opts...)
		vf.Reach("fetch-done")
		vf.Assert("invalid-request-never-reaches-a-lookup", vf.Implies(invalid, vf.And(err != nil, st.ops == 0)))
		vf.Assert("valid-request-reaches-the-lookup", vf.Implies(valid, vf.And(err == nil, st.ops > 0)))
		if err == nil {
			vf.Assert("unauthorized-fetch-is-empty", len(resp.EncryptedNodeCredentials) == 0)
		}
	}
}

// C03, node side: a request the library creates is valid from its creation for exactly the documented fetch
// lifetime, signed by the node's certificate key, and the server side accepts it exactly inside that window.
func VerifC03NodeSide() {
	ctx := context.Background()
	t0 := vf.Now()
	creds, err := types.NewNodeCredentials(ctx, &vfs.Storage{})
	vf.Assert("node-credentials-created", err == nil)
	if err != nil {
		return
	}
	req, err := creds.CreateFetchNodeCredentialsRequest(ctx)
	vf.Assert("request-created", err == nil)
	if err != nil {
		return
	}
	made := vf.Now()
	vf.Assume(vf.TimeLE(made, t0.Add(time.Second)))
	info := new(types.FetchNodeCredentialsInfo)
	vf.Assert("bundle-decodes", proto.Unmarshal(req.Bundle, info) == nil)
	nb, na := info.NotBefore.AsTime(), info.NotAfter.AsTime()
	vf.Assert("valid-from-creation", vf.And(vf.TimeLE(t0, nb), vf.TimeLE(nb, made)))
	vf.Assert("valid-for-exactly-the-fetch-lifetime", na.Sub(nb) == nodeenrollment.DefaultFetchCredentialsLifetime)
	vf.Assert("names-the-nodes-own-key", vf.EqBytes(info.CertificatePublicKeyPkix, creds.CertificatePublicKeyPkix))
	// the server's view under arbitrary skews (which shift the window: a stand-in for the passage of time)
	nbSkew := vf.Dur("nbskew", -100000000000000, 100000000000000)
	naSkew := vf.Dur("naskew", -100000000000000, 100000000000000)
	_, verr := validateFetchRequestCommon(ctx, &vfs.Storage{}, req, nodeenrollment.WithNotBeforeClockSkew(nbSkew), nodeenrollment.WithNotAfterClockSkew(naSkew))
	tEnd := vf.Now()
	vf.Assume(vf.TimeLE(tEnd, t0.Add(2*time.Second)))
	if verr == nil {
		vf.Reach("own-request-accepted")
		vf.Assert("accepted-only-inside-the-window", vf.And(vf.TimeLE(nb.Add(nbSkew), tEnd), vf.TimeLE(made, na.Add(naSkew))))
	} else {
		vf.Reach("own-request-rejected")
		vf.Assert("rejected-only-outside-the-window", vf.Not(vf.And(vf.TimeLE(nb.Add(nbSkew), made), vf.TimeLE(tEnd, na.Add(naSkew)))))
	}
}
