//go:build verif

package registration

import (
	"context"
	"time"

	"github.com/hashicorp/nodeenrollment"
	"github.com/hashicorp/nodeenrollment/storage/file"
	"github.com/hashicorp/nodeenrollment/types"
	"github.com/hashicorp/nodeenrollment/zzverif/vf"
	"github.com/hashicorp/nodeenrollment/zzverif/vfs"
)

func init() { VfHarnesses["VerifC06TokenRace"] = VerifC06TokenRace }

// C06 / C01(b) / C13 (a used-up token is never left usable), one interleaving point of two calls: node B's fetch
// has looked the token up when a competitor acts - another node's fetch with the same token runs to completion,
// or the operator revokes the token - and only then does B's fetch go on to remove the token. On a storage that
// reports the removal of a missing entry as an error (the library asks implementations to: a strict model, and
// the real file back end over the abstract file system) B is refused and at most one node is enrolled. The
// in-memory back end removes silently and is outside this claim (the library leaves one-time semantics under
// concurrent use to the storage).
func VerifC06TokenRace() {
	ctx := context.Background()
	t0 := vf.Now()
	vf.ShortScenario(t0, time.Second)
	var st nodeenrollment.Storage
	if vf.Bool("file-back-end") {
		fs, err := file.New(ctx)
		vf.Assert("storage-created", err == nil)
		if err != nil {
			return
		}
		defer fs.Cleanup(ctx)
		st = fs
	} else {
		st = &vfs.Storage{StrictRemove: true}
	}
	vfs.StoreRoots(ctx, st, t0)
	tokenId, token, err := CreateServerLedActivationToken(ctx, st, &types.ServerLedRegistrationRequest{})
	vf.Assert("token-created", err == nil)
	if err != nil {
		return
	}
	request := func() *types.FetchNodeCredentialsRequest {
		creds, err := types.NewNodeCredentials(ctx, &vfs.Storage{}, nodeenrollment.WithActivationToken(token))
		if err != nil {
			panic(err)
		}
		req, err := creds.CreateFetchNodeCredentialsRequest(ctx, nodeenrollment.WithActivationToken(token))
		if err != nil {
			panic(err)
		}
		return req
	}
	reqA, reqB := request(), request()
	otherNode := vf.Bool("competitor-is-another-nodes-fetch") // otherwise: the operator revokes the token
	aIssued := false
	racing := &vfs.Racing{Inner: st, Kind: vfs.KindToken}
	racing.AfterLoad = func() {
		if otherNode {
			resp, err := FetchNodeCredentials(ctx, st, reqA)
			aIssued = vfIssued(resp, err)
		} else if err := st.Remove(ctx, &types.ServerLedActivationToken{Id: tokenId}); err != nil {
			panic(err)
		}
	}
	respB, errB := FetchNodeCredentials(ctx, racing, reqB)
	vf.Assume(vf.TimeLE(vf.Now(), t0.Add(time.Second)))
	vf.Assert("the-interleaving-point-was-reached", racing.Fired)
	if otherNode {
		vf.Assert("competitor-enrolled", aIssued)
	}
	vf.Assert("token-used-up-or-revoked-in-between-does-not-enroll", !vfIssued(respB, errB))
	ids, err := st.List(ctx, (*types.NodeInformation)(nil))
	vf.Assert("records-listed", err == nil)
	if otherNode {
		vf.Assert("exactly-the-competitor-is-enrolled", len(ids) == 1)
	} else {
		vf.Assert("a-revoked-token-enrolls-nobody", len(ids) == 0)
	}
	vf.Reach("end")
}
