//go:build verif

package inmem

import (
	"context"
	"errors"

	"github.com/hashicorp/nodeenrollment"
	"github.com/hashicorp/nodeenrollment/types"
	"github.com/hashicorp/nodeenrollment/zzverif/vf"
	"github.com/hashicorp/nodeenrollment/zzverif/vfs"
	"google.golang.org/protobuf/proto"
)

var VfHarnesses = map[string]func(){"VerifC19Inmem": VerifC19Inmem}

func vfMsg(kind int, id, marker string) nodeenrollment.MessageWithId {
	switch kind {
	case 0:
		return &types.NodeCredentials{Id: id, WrappingKeyId: marker}
	case 1:
		return &types.NodeInformation{Id: id, WrappingKeyId: marker}
	case 2:
		return &types.RootCertificates{Id: id, WrappingKeyId: marker}
	default:
		return &types.ServerLedActivationToken{Id: id, WrappingKeyId: marker}
	}
}
func vfMarker(m nodeenrollment.MessageWithId) string {
	switch t := m.(type) {
	case *types.NodeCredentials:
		return t.WrappingKeyId
	case *types.NodeInformation:
		return t.WrappingKeyId
	case *types.RootCertificates:
		return t.WrappingKeyId
	case *types.ServerLedActivationToken:
		return t.WrappingKeyId
	}
	return ""
}

type vfRef struct {
	kind   int
	id     string
	marker string
}

// C19 (sequential part) for the in-memory back end: three arbitrary operations against a reference map.
func VerifC19Inmem() {
	ctx := context.Background()
	st, err := New(ctx)
	vf.Assert("new", err == nil)
	var ref []vfRef
	find := func(kind int, id string) int {
		for i := range ref {
			if ref[i].kind == kind && ref[i].id == id {
				return i
			}
		}
		return -1
	}
	ids := []string{"a", "b"}
	for step := 0; step < 3; step++ {
		op := vf.Int("op", 0, 3)
		kind := vf.Int("kind", 0, 3)
		id := ids[vf.Int("id", 0, 1)]
		switch op {
		case 0: // store
			marker := vf.String("marker", 4)
			vf.Assert("store-ok", st.Store(ctx, vfMsg(kind, id, marker)) == nil)
			if i := find(kind, id); i >= 0 {
				ref[i].marker = marker
			} else {
				ref = append(ref, vfRef{kind, id, marker})
			}
		case 1: // load
			m := vfMsg(kind, id, "")
			lerr := st.Load(ctx, m)
			if i := find(kind, id); i >= 0 {
				vf.Assert("load-present-ok", lerr == nil)
				vf.Assert("load-returns-last-stored", vfMarker(m) == ref[i].marker)
			} else {
				vf.Assert("load-absent-is-not-found", errors.Is(lerr, nodeenrollment.ErrNotFound))
			}
		case 2: // remove
			vf.Assert("remove-ok", st.Remove(ctx, vfMsg(kind, id, "")) == nil)
			if i := find(kind, id); i >= 0 {
				ref = append(ref[:i], ref[i+1:]...)
			}
		default: // list
			var probe proto.Message = vfMsg(kind, "", "")
			got, lerr := st.List(ctx, probe)
			if kind == 3 {
				vf.Assert("tokens-are-not-listable", lerr != nil)
				break
			}
			vf.Assert("list-ok", lerr == nil)
			want := 0
			for _, r := range ref {
				if r.kind == kind {
					want++
					found := false
					for _, g := range got {
						if g == r.id {
							found = true
						}
					}
					vf.Assert("listed-contains-every-present-id", found)
				}
			}
			vf.Assert("listed-exactly-the-present-ids", len(got) == want)
		}
	}
	vf.Assert("nil-refused", st.Store(ctx, nil) != nil)
	vf.Reach("end")
}

func init() {
	VfHarnesses["VerifC19InmemStep"] = VerifC19InmemStep
	VfHarnesses["VerifC19InmemStep3"] = VerifC19InmemStep3
}

// Inductive form: arbitrary pre-state of two stored entries, then ONE arbitrary operation, compared with the reference map.
var vfPre = 2

// VerifC19InmemStep3 is the same step from a three-entry pre-state (thorough tier).
func VerifC19InmemStep3() { vfPre = 3; VerifC19InmemStep() }

func VerifC19InmemStep() {
	ctx := context.Background()
	st, err := New(ctx)
	vf.Assert("storage-created", err == nil)
	if err != nil {
		return
	}
	vfs.MapStep(ctx, st, false, vfPre)
}
