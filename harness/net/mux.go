//go:build verif

package net

import (
	"context"
	"errors"
	"net"
	"time"

	"github.com/hashicorp/nodeenrollment/zzverif/vf"
)

var VfHarnesses = map[string]func(){"VerifMuxSequential": VerifMuxSequential}

type vfAddr struct{}

func (vfAddr) Network() string { return "vf" }
func (vfAddr) String() string  { return "vf" }

type vfConn struct {
	closed int
	id     int
}

func (c *vfConn) Read(b []byte) (int, error)         { return 0, errors.New("vf") }
func (c *vfConn) Write(b []byte) (int, error)        { return 0, errors.New("vf") }
func (c *vfConn) Close() error                       { c.closed++; return nil }
func (c *vfConn) LocalAddr() net.Addr                { return vfAddr{} }
func (c *vfConn) RemoteAddr() net.Addr               { return vfAddr{} }
func (c *vfConn) SetDeadline(t time.Time) error      { return nil }
func (c *vfConn) SetReadDeadline(t time.Time) error  { return nil }
func (c *vfConn) SetWriteDeadline(t time.Time) error { return nil }

// One fixed (sequentialised) schedule through the real MultiplexingListener: exercises goroutines,
// the unbuffered channel rendezvous, select, RWMutex, Once and context cancellation in the engine.
func VerifMuxSequential() {
	ml, err := NewMultiplexingListener(context.Background(), vfAddr{})
	vf.Assert("built", err == nil)
	c1 := &vfConn{id: 1}
	go ml.IngressConn(c1, nil)
	got, err := ml.Accept()
	vf.Assert("delivered", vf.And(err == nil, got == net.Conn(c1)))
	vf.Assert("not-closed-when-delivered", c1.closed == 0)

	c2 := &vfConn{id: 2}
	go ml.IngressConn(c2, nil) // this sender will be blocked when Close is called
	vf.Quiesce()
	vf.Assert("close-returns", ml.Close() == nil)
	vf.Quiesce()
	vf.Assert("blocked-sender-drained-and-closed", c2.closed == 1)

	_, err = ml.Accept()
	vf.Assert("accept-after-close-reports-closed", errors.Is(err, net.ErrClosed))
	c3 := &vfConn{id: 3}
	ml.IngressConn(c3, nil)
	vf.Assert("late-conn-closed-not-sent", c3.closed == 1)
	vf.Reach("end")
}
