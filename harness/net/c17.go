//go:build verif

package net

import (
	"context"
	"crypto/tls"
	"crypto/x509"
	"crypto/x509/pkix"
	"encoding/base64"
	"errors"
	"math/big"
	"net"
	"strings"
	"time"

	"github.com/hashicorp/nodeenrollment"
	"github.com/hashicorp/nodeenrollment/protocol"
	nodetls "github.com/hashicorp/nodeenrollment/tls"
	"github.com/hashicorp/nodeenrollment/types"
	"github.com/hashicorp/nodeenrollment/zzverif/vf"
	"github.com/hashicorp/nodeenrollment/zzverif/vfs"
	"google.golang.org/protobuf/proto"
	"google.golang.org/protobuf/types/known/timestamppb"
)

func init() { VfHarnesses["VerifC17Routing"] = VerifC17Routing }

type vfAddrListener struct{ *vfs.Script }

func (l vfAddrListener) Addr() net.Addr { return vfAddr{} }

// C17 (one sequentialised schedule per path): which sub-listener receives which connection, for every set of
// registered sub-listeners {a specific name "special", the non-specific authenticated one, the unauthenticated one},
// with or without native connections on the specific one, and for
//   - an authenticated node offering one arbitrary extra protocol name (possibly "special" or one of the reserved
//     names), listed before or after its certificate-preference entry, or
//   - a plain TLS client of the application offering the application protocol plus one arbitrary name (possibly
//     "special" or a reserved name).
//
// The harness accepts from the sub-listener the statement designates; a connection routed anywhere else leaves the
// run deadlocked, which the engine reports (and the native twin reproduces as a timeout).
func VerifC17Routing() {
	ctx := context.Background()
	st := &vfs.Storage{}
	t0 := vf.Now()
	vf.ShortScenario(t0, time.Second)
	cur, curTmpl := vfs.MkRoot("current", 0, t0.Add(-time.Hour), t0.Add(time.Hour))
	next, _ := vfs.MkRoot("next", 1, t0.Add(-time.Hour), t0.Add(time.Hour))
	if err := (&types.RootCertificates{Id: nodeenrollment.RootsMessageId, Current: cur, Next: next}).Store(ctx, st); err != nil {
		panic(err)
	}
	nodeKeyId, _ := nodeenrollment.KeyIdFromPkix(vf.Pkix(2))
	if err := (&types.NodeInformation{Id: nodeKeyId, CertificatePublicKeyPkix: vf.Pkix(2)}).Store(ctx, st); err != nil {
		panic(err)
	}
	leaf := vfs.MkCert(&x509.Certificate{SubjectKeyId: vf.Pkix(2), Subject: pkix.Name{CommonName: nodeKeyId}, DNSNames: []string{nodeKeyId},
		ExtKeyUsage: []x509.ExtKeyUsage{x509.ExtKeyUsageClientAuth}, SerialNumber: big.NewInt(2), NotBefore: curTmpl.NotBefore, NotAfter: curTmpl.NotAfter}, curTmpl, 2, 0)
	// the application's own TLS identity (for clients that are not nodes)
	appTmpl := vfs.RootTemplate(6, t0.Add(-time.Hour), t0.Add(time.Hour))
	appKey, err := x509.ParsePKCS8PrivateKey(vf.Pkcs8(6))
	if err != nil {
		panic(err)
	}
	baseCfg := &tls.Config{NextProtos: []string{"app"}, Certificates: []tls.Certificate{{Certificate: [][]byte{vfs.MkCert(appTmpl, appTmpl, 6, 6)}, PrivateKey: appKey}}}

	name := vf.String("offered-name", 12) // an arbitrary protocol name the client adds to its list
	vf.Assume(vf.And(len(name) >= 1, vf.Not(strings.HasPrefix(name, "v1-nodee-"))))
	// a node may offer a second, unregistered application protocol ahead of it
	lead := vf.Bool("node-offers-an-unregistered-protocol-first")
	node := vf.Bool("client-is-an-authenticated-node")
	var peer *vfs.Peer
	if node {
		nonce := []byte("a-fresh-connection-nonce-32-byte")
		reqBytes, _ := proto.Marshal(&types.GenerateServerCertificatesRequest{CertificatePublicKeyPkix: vf.Pkix(2), Nonce: nonce, NonceSignature: vf.SigBy(2, nonce)})
		protos, _ := nodetls.BreakIntoNextProtos(nodeenrollment.AuthenticateNodeNextProtoV1Prefix, base64.RawStdEncoding.EncodeToString(reqBytes))
		prefId, _ := nodeenrollment.KeyIdFromPkix(vf.Pkix(0))
		pref := nodeenrollment.CertificatePreferenceV1Prefix + prefId
		if lead {
			protos = append(protos, "some-other-app-protocol")
		}
		if vf.Bool("preference-entry-before-the-extra-name") {
			protos = append(protos, pref, name)
		} else {
			protos = append(protos, name, pref)
		}
		peer = &vfs.Peer{Protos: protos, Chain: [][]byte{leaf}, HoldsLeafKey: true}
		peer.Conn = vf.AdversaryConn(peer.Protos, peer.Chain, 2, true)
	} else {
		vf.Assume(name != "app")
		peer = &vfs.Peer{Protos: []string{"app", name}}
		peer.Conn = vf.AdversaryConn(peer.Protos, nil, 0, false)
	}
	baseClosed := make(chan struct{})
	script := &vfs.Script{Conns: []net.Conn{peer}, Errs: []error{nil}, Hold: baseClosed}
	if vf.Bool("a-peer-that-does-not-speak-tls-connects-first") { // its failure is temporary: only that connection is dropped
		bad := &vfs.Peer{NotTLS: true}
		bad.Conn = vf.AdversaryConnMode(nil, nil, 0, false, true, false)
		script.Conns, script.Errs = []net.Conn{bad, peer}, []error{nil, nil}
	}
	if vf.Bool("closed-base-listener-reports-another-error") { // not every listener reports closure as net.ErrClosed
		script.Final = errors.New("listener shut down")
	}
	il, err := protocol.NewInterceptingListener(&protocol.InterceptingListenerConfiguration{Context: ctx, Storage: st,
		BaseListener: vfAddrListener{script}, BaseTlsConfiguration: baseCfg})
	vf.Assert("listener-built", err == nil)
	sl, err := NewSplitListener(il)
	vf.Assert("split-built", err == nil)

	hasSpec, hasAuth, hasUnauth := vf.Bool("specific-listener-registered"), vf.Bool("non-specific-listener-registered"), vf.Bool("unauthenticated-listener-registered")
	nativeSpec := vf.Bool("specific-listener-wants-native-conns")
	var specLn, authLn, unauthLn net.Listener
	if hasSpec {
		specLn, _ = sl.GetListener("special", nodeenrollment.WithNativeConns(nativeSpec))
	}
	if hasAuth {
		authLn, _ = sl.GetListener(AuthenticatedNonSpecificNextProto)
	}
	if hasUnauth {
		unauthLn, _ = sl.GetListener(UnauthenticatedNextProto)
	}
	go func() { _ = sl.Start() }()

	// where the statement sends this connection
	var want net.Listener
	wantName := ""
	if node {
		switch {
		case hasSpec && name == "special":
			want, wantName = specLn, "special"
		case hasAuth && name == AuthenticatedNonSpecificNextProto:
			want, wantName = authLn, "auth"
		case hasUnauth && name == UnauthenticatedNextProto: // the node itself asked for that listener's name
			want, wantName = unauthLn, "unauth"
		case hasAuth:
			want, wantName = authLn, "auth"
		}
	} else if hasUnauth {
		want, wantName = unauthLn, "unauth"
	}
	if want != nil {
		vf.Reach("delivered-to-" + wantName)
		got, err := want.Accept()
		vf.Assert("connection-delivered", err == nil)
		if err == nil {
			var state tls.ConnectionState
			if pc, isNative := got.(*protocol.Conn); isNative {
				vf.Assert("native-conn-only-when-requested", wantName == "special" && nativeSpec)
				state = pc.ConnectionState()
			} else {
				tc, isTls := got.(*tls.Conn)
				vf.Assert("plain-tls-conn-unless-native", vf.And(isTls, !(wantName == "special" && nativeSpec)))
				if isTls {
					state = tc.ConnectionState()
				}
			}
			authenticated := strings.HasPrefix(state.NegotiatedProtocol, nodeenrollment.AuthenticateNodeNextProtoV1Prefix)
			if wantName == "unauth" && !node {
				vf.Assert("unauthenticated-connection-negotiated-the-application-protocol", state.NegotiatedProtocol == "app")
			} else {
				vf.Assert("connection-from-an-authenticated-listener-is-authenticated", authenticated)
			}
		}
	} else {
		vf.Reach("closed-no-listener")
	}
	vf.Quiesce()
	close(baseClosed) // the application closes the base listener: Start returns and closes every sub-listener
	vf.Quiesce()
	for _, ln := range []net.Listener{specLn, authLn, unauthLn} {
		if ln != nil {
			_, cerr := ln.Accept()
			vf.Assert("every-sub-listener-reports-closed", errors.Is(cerr, net.ErrClosed))
		}
	}
	vf.Reach("end")
}

func init() { VfHarnesses["VerifC17LateRegistration"] = VerifC17LateRegistration }

// vfNodePeer is an authenticated node (universe key 2, leaf under the current root) offering one extra protocol name.
func vfNodePeer(leaf []byte, nonce []byte, name string, nameFirst bool) *vfs.Peer {
	reqBytes, _ := proto.Marshal(&types.GenerateServerCertificatesRequest{CertificatePublicKeyPkix: vf.Pkix(2), Nonce: nonce, NonceSignature: vf.SigBy(2, nonce)})
	protos, _ := nodetls.BreakIntoNextProtos(nodeenrollment.AuthenticateNodeNextProtoV1Prefix, base64.RawStdEncoding.EncodeToString(reqBytes))
	prefId, _ := nodeenrollment.KeyIdFromPkix(vf.Pkix(0))
	if nameFirst { // a client may list its own protocol ahead of the library's entries: routing does not depend on the order
		protos = append([]string{name}, protos...)
		protos = append(protos, nodeenrollment.CertificatePreferenceV1Prefix+prefId)
	} else {
		protos = append(protos, name, nodeenrollment.CertificatePreferenceV1Prefix+prefId)
	}
	peer := &vfs.Peer{Protos: protos, Chain: [][]byte{leaf}, HoldsLeafKey: true}
	peer.Conn = vf.AdversaryConn(peer.Protos, peer.Chain, 2, true)
	return peer
}

// C17 (sub-listeners registered while the split listener runs): a first authenticated connection arrives when the
// sub-listener it would go to does not exist yet and is closed; the application then registers that sub-listener
// (the non-specific authenticated one, or the specific one) and a second authenticated connection arrives: it is
// routed by the registrations in force when it arrives, not by those seen for an earlier connection.
func VerifC17LateRegistration() {
	ctx := context.Background()
	st := &vfs.Storage{}
	t0 := vf.Now()
	vf.ShortScenario(t0, time.Second)
	cur, curTmpl := vfs.MkRoot("current", 0, t0.Add(-time.Hour), t0.Add(time.Hour))
	next, _ := vfs.MkRoot("next", 1, t0.Add(-time.Hour), t0.Add(time.Hour))
	if err := (&types.RootCertificates{Id: nodeenrollment.RootsMessageId, Current: cur, Next: next}).Store(ctx, st); err != nil {
		panic(err)
	}
	nodeKeyId, _ := nodeenrollment.KeyIdFromPkix(vf.Pkix(2))
	if err := (&types.NodeInformation{Id: nodeKeyId, CertificatePublicKeyPkix: vf.Pkix(2)}).Store(ctx, st); err != nil {
		panic(err)
	}
	leaf := vfs.MkCert(&x509.Certificate{SubjectKeyId: vf.Pkix(2), Subject: pkix.Name{CommonName: nodeKeyId}, DNSNames: []string{nodeKeyId},
		ExtKeyUsage: []x509.ExtKeyUsage{x509.ExtKeyUsageClientAuth}, SerialNumber: big.NewInt(2), NotBefore: curTmpl.NotBefore, NotAfter: curTmpl.NotAfter}, curTmpl, 2, 0)
	name := "other"
	if vf.Bool("nodes-offer-the-specific-name") {
		name = "special"
	}
	nameFirst := vf.Bool("nodes-list-the-extra-name-first")
	first := vfNodePeer(leaf, []byte("the-first-connection-nonce-32-by"), name, nameFirst)
	second := vfNodePeer(leaf, []byte("the-second-connection-nonce-32-b"), name, nameFirst)
	if vf.Bool("first-connection-is-a-credential-fetch") {
		// a node that is not authorized yet: its fetch is answered inside the handshake, Accept reports a temporary error
		// and the split listener keeps running
		info := &types.FetchNodeCredentialsInfo{CertificatePublicKeyPkix: vf.Pkix(3), CertificatePublicKeyType: types.KEYTYPE_ED25519,
			Nonce: []byte("an-unregistered-nodes-nonce-32-b"), EncryptionPublicKeyBytes: vf.X25519Pub(0), EncryptionPublicKeyType: types.KEYTYPE_X25519,
			NotBefore: timestamppb.New(t0.Add(-time.Hour)), NotAfter: timestamppb.New(t0.Add(time.Hour))}
		bundle, _ := proto.Marshal(info)
		freq, _ := proto.Marshal(&types.FetchNodeCredentialsRequest{Bundle: bundle, BundleSignature: vf.SigBy(3, bundle)})
		fprotos, _ := nodetls.BreakIntoNextProtos(nodeenrollment.FetchNodeCredsNextProtoV1Prefix, base64.RawStdEncoding.EncodeToString(freq))
		ftmpl := vfs.RootTemplate(6, t0.Add(-time.Hour), t0.Add(time.Hour))
		first = &vfs.Peer{Protos: fprotos, Chain: [][]byte{vfs.MkCert(ftmpl, ftmpl, 6, 6)}, HoldsLeafKey: true}
		first.Conn = vf.AdversaryConn(first.Protos, first.Chain, 6, true)
	}
	baseClosed, arrive := make(chan struct{}), make(chan struct{})
	script := &vfs.Script{Conns: []net.Conn{first, second}, Errs: []error{nil, nil}, Hold: baseClosed, Gate: arrive, GateAt: 1}
	il, err := protocol.NewInterceptingListener(&protocol.InterceptingListenerConfiguration{Context: ctx, Storage: st, BaseListener: vfAddrListener{script}})
	vf.Assert("listener-built", err == nil)
	sl, err := NewSplitListener(il)
	vf.Assert("split-built", err == nil)
	var unauthLn net.Listener
	if vf.Bool("unauthenticated-listener-registered-from-the-start") {
		unauthLn, _ = sl.GetListener(UnauthenticatedNextProto)
	}
	go func() { _ = sl.Start() }()
	vf.Quiesce() // the first connection has been handled: nothing takes it, it is closed

	lateSpecific := vf.Bool("late-listener-is-the-specific-one")
	var late net.Listener
	if lateSpecific {
		late, err = sl.GetListener("special")
	} else {
		late, err = sl.GetListener(AuthenticatedNonSpecificNextProto)
	}
	vf.Assert("late-listener-registered", err == nil && late != nil)
	close(arrive) // the second connection arrives now
	if !lateSpecific || name == "special" {
		vf.Reach("delivered-to-the-late-listener")
		got, aerr := late.Accept()
		vf.Assert("second-connection-delivered-to-the-listener-registered-meanwhile", aerr == nil && got != nil)
	} else {
		vf.Reach("second-connection-has-no-listener")
	}
	vf.Quiesce()
	close(baseClosed)
	vf.Quiesce()
	for _, ln := range []net.Listener{late, unauthLn} {
		if ln != nil {
			_, cerr := ln.Accept()
			vf.Assert("every-sub-listener-reports-closed", errors.Is(cerr, net.ErrClosed))
		}
	}
	vf.Reach("end")
}
