//go:build verif

package net

import (
	"context"
	"crypto/rand"
	"crypto/tls"
	"crypto/x509"
	"crypto/x509/pkix"
	"encoding/base64"
	"errors"
	"math/big"
	"net"
	"time"

	"github.com/hashicorp/nodeenrollment"
	"github.com/hashicorp/nodeenrollment/protocol"
	nodetls "github.com/hashicorp/nodeenrollment/tls"
	"github.com/hashicorp/nodeenrollment/types"
	"github.com/hashicorp/nodeenrollment/zzverif/vf"
	"google.golang.org/protobuf/proto"
	"google.golang.org/protobuf/types/known/timestamppb"
)

func init() { VfHarnesses["VerifC17Routing"] = VerifC17Routing }

// ---- marshal-based storage, like the real back ends ----
type vfEntry struct {
	kind int
	id   string
	data []byte
}
type vfStorage struct{ entries []vfEntry }

func vfKind(m proto.Message) int {
	switch m.(type) {
	case *types.NodeInformation:
		return 1
	case *types.RootCertificates:
		return 2
	case *types.NodeCredentials:
		return 3
	case *types.ServerLedActivationToken:
		return 4
	}
	return 0
}
func (s *vfStorage) Store(ctx context.Context, m nodeenrollment.MessageWithId) error {
	b, err := proto.Marshal(m)
	if err != nil {
		return err
	}
	k := vfKind(m)
	for i := range s.entries {
		if s.entries[i].kind == k && s.entries[i].id == m.GetId() {
			s.entries[i].data = b
			return nil
		}
	}
	s.entries = append(s.entries, vfEntry{k, m.GetId(), b})
	return nil
}
func (s *vfStorage) Load(ctx context.Context, m nodeenrollment.MessageWithId) error {
	k := vfKind(m)
	for _, e := range s.entries {
		if e.kind == k && e.id == m.GetId() {
			return proto.Unmarshal(e.data, m)
		}
	}
	return nodeenrollment.ErrNotFound
}
func (s *vfStorage) Remove(ctx context.Context, m nodeenrollment.MessageWithId) error { return nil }
func (s *vfStorage) List(ctx context.Context, m proto.Message) ([]string, error)     { return nil, nil }


type vfPeer struct {
	vfConn
	Protos       []string
	Chain        [][]byte
	HoldsLeafKey bool
}
type vfSeqListener struct {
	conns []net.Conn
	next  int
}

func (l *vfSeqListener) Accept() (net.Conn, error) {
	if l.next >= len(l.conns) {
		return nil, net.ErrClosed
	}
	l.next++
	return l.conns[l.next-1], nil
}
func (l *vfSeqListener) Close() error   { return nil }
func (l *vfSeqListener) Addr() net.Addr { return vfAddr{} }

func vfMkCert(tmpl, parent *x509.Certificate, subjectKey, signerKey int) []byte {
	priv, _ := x509.ParsePKCS8PrivateKey(vf.Pkcs8(signerKey))
	pub, _ := x509.ParsePKIXPublicKey(vf.Pkix(subjectKey))
	der, err := x509.CreateCertificate(rand.Reader, tmpl, parent, pub, priv)
	if err != nil {
		panic(err)
	}
	return der
}

// C17 (one sequentialised schedule): which sub-listener receives which kind of connection.
func VerifC17Routing() {
	ctx := context.Background()
	st := &vfStorage{}
	t0 := vf.Now()
	mkRoot := func(k int, id string) (*types.RootCertificate, []byte, *x509.Certificate) {
		tmpl := &x509.Certificate{SubjectKeyId: vf.Pkix(k), Subject: pkix.Name{CommonName: "root"}, SerialNumber: big.NewInt(1),
			NotBefore: t0.Add(-time.Hour), NotAfter: t0.Add(time.Hour), IsCA: true, BasicConstraintsValid: true}
		der := vfMkCert(tmpl, tmpl, k, k)
		return &types.RootCertificate{Id: id, PublicKeyPkix: vf.Pkix(k), PrivateKeyPkcs8: vf.Pkcs8(k), PrivateKeyType: types.KEYTYPE_ED25519,
			CertificateDer: der, NotBefore: timestamppb.New(tmpl.NotBefore), NotAfter: timestamppb.New(tmpl.NotAfter)}, der, tmpl
	}
	cur, curDer, curTmpl := mkRoot(0, "current")
	next, _, _ := mkRoot(1, "next")
	if err := (&types.RootCertificates{Id: nodeenrollment.RootsMessageId, Current: cur, Next: next}).Store(ctx, st); err != nil {
		panic(err)
	}
	nodePkix := vf.Pkix(2)
	nodeKeyId, _ := nodeenrollment.KeyIdFromPkix(nodePkix)
	leafDer := vfMkCert(&x509.Certificate{SubjectKeyId: nodePkix, Subject: pkix.Name{CommonName: nodeKeyId}, DNSNames: []string{nodeKeyId},
		ExtKeyUsage: []x509.ExtKeyUsage{x509.ExtKeyUsageClientAuth}, SerialNumber: big.NewInt(2),
		NotBefore: curTmpl.NotBefore, NotAfter: curTmpl.NotAfter}, curTmpl, 2, 0)
	if err := (&types.NodeInformation{Id: nodeKeyId, CertificatePublicKeyPkix: nodePkix}).Store(ctx, st); err != nil {
		panic(err)
	}

	// client 1: an honest authenticated node offering one extra protocol name (arbitrary string)
	extra := vf.String("extra-proto", 12)
	vf.Assume(len(extra) > 0)
	nonce := vf.Bytes("nonce", 32)
	vf.Assume(len(nonce) == 32)
	req := &types.GenerateServerCertificatesRequest{CertificatePublicKeyPkix: nodePkix, Nonce: nonce, NonceSignature: vf.SigBy(2, nonce)}
	reqBytes, _ := proto.Marshal(req)
	protos, _ := nodetls.BreakIntoNextProtos(nodeenrollment.AuthenticateNodeNextProtoV1Prefix, base64.RawStdEncoding.EncodeToString(reqBytes))
	curKeyId, _ := nodeenrollment.KeyIdFromPkix(vf.Pkix(0))
	protos = append(protos, extra, nodeenrollment.CertificatePreferenceV1Prefix+curKeyId)
	authPeer := &vfPeer{Protos: protos, Chain: [][]byte{leafDer, curDer}, HoldsLeafKey: true}
	authPeer.id = 1
	// client 2: a plain TLS client of the application offering the application protocol
	plainPeer := &vfPeer{Protos: []string{"app"}}
	plainPeer.id = 2

	il, err := protocol.NewInterceptingListener(&protocol.InterceptingListenerConfiguration{Context: ctx, Storage: st,
		BaseListener:         &vfSeqListener{conns: []net.Conn{authPeer, plainPeer}},
		BaseTlsConfiguration: &tls.Config{NextProtos: []string{"app"}, Certificates: []tls.Certificate{{}}}})
	vf.Assert("listener-built", err == nil)
	sl, err := NewSplitListener(il)
	vf.Assert("split-built", err == nil)
	authLn, _ := sl.GetListener(AuthenticatedNonSpecificNextProto)
	unauthLn, _ := sl.GetListener(UnauthenticatedNextProto)
	specLn, _ := sl.GetListener("special")

	go func() { _ = sl.Start() }()

	// the authenticated connection must come out of "special" iff the node offered that name, else of __AUTH__
	var got net.Conn
	if extra == "special" {
		vf.Reach("routed-specific")
		got, err = specLn.Accept()
	} else if extra == UnauthenticatedNextProto {
		vf.Reach("routed-to-unauth-by-own-request")
		got, err = unauthLn.Accept()
	} else {
		vf.Reach("routed-nonspecific")
		got, err = authLn.Accept()
	}
	vf.Assume(vf.TimeLE(vf.Now(), t0.Add(time.Second))) // clock assumption: the whole scenario is short
	vf.Assert("auth-conn-delivered", err == nil)
	if err == nil {
		tc, isTls := got.(*tls.Conn)
		vf.Assert("plain-tls-conn-unless-native", isTls)
		if isTls {
			vf.Assert("delivered-conn-is-authenticated", len(tc.ConnectionState().NegotiatedProtocol) > len(nodeenrollment.AuthenticateNodeNextProtoV1Prefix))
		}
	}
	if extra != UnauthenticatedNextProto {
		got2, err2 := unauthLn.Accept()
		vf.Assert("plain-conn-delivered-to-unauth", err2 == nil)
		if err2 == nil {
			tc2, ok := got2.(*tls.Conn)
			vf.Assert("unauth-conn-is-plain", vf.And(ok, tc2.ConnectionState().NegotiatedProtocol == "app"))
		}
	}
	vf.Quiesce() // base listener is exhausted: Start returns and closes every sub-listener
	_, e1 := authLn.Accept()
	_, e2 := unauthLn.Accept()
	_, e3 := specLn.Accept()
	vf.Assert("all-sublisteners-closed", vf.And(errors.Is(e1, net.ErrClosed), vf.And(errors.Is(e2, net.ErrClosed), errors.Is(e3, net.ErrClosed))))
	vf.Reach("end")
}
