#!/bin/sh
# confirm_mutant.sh <worktree> <outdir> <pkgdir-for-demo>
# Confirms in a scratch worktree: (a) build + full suite pass with the patch, (b) demo fails with it, (c) demo passes without it.
WT="$1"; OUT="$2"; PKG="$3"
export GOFLAGS=-mod=mod GOPROXY=off GOSUMDB=off GOTOOLCHAIN=local
cd "$WT" || exit 2
git checkout -q -- . && git clean -qfd
git apply "$OUT/patch.diff" || { echo "RESULT patch does not apply"; exit 1; }
go build ./... || { echo "RESULT build fails"; git checkout -q -- .; exit 1; }
if go test -vet=off -count=1 -timeout 25m ./... > /tmp/confirm-suite.$$ 2>&1; then A=pass; else A=FAIL; fi
DEMO=$(ls "$OUT"/zz_demo_*_test.go | head -1)
cp "$DEMO" "$PKG/"
if go test -vet=off -count=1 -timeout 10m -run 'Demo' "./$PKG/" > /tmp/confirm-demo-with.$$ 2>&1; then B=pass; else B=fail; fi
git checkout -q -- .
if go test -vet=off -count=1 -timeout 10m -run 'Demo' "./$PKG/" > /tmp/confirm-demo-without.$$ 2>&1; then C=pass; else C=FAIL; fi
rm -f "$PKG/$(basename "$DEMO")"; git clean -qfd
echo "RESULT suite_with_mutant=$A demo_with_mutant=$B demo_without_mutant=$C"
[ "$A" = pass ] && [ "$B" = fail ] && [ "$C" = pass ] && echo CONFIRMED || { tail -5 /tmp/confirm-suite.$$ /tmp/confirm-demo-with.$$ /tmp/confirm-demo-without.$$; }
rm -f /tmp/confirm-*.$$
