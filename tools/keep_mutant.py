#!/usr/bin/env python3
"""keep_mutant.py <ID> <mk> <demo pkg dir> : copy a confirmed sub-agent mutant from /tmp/mut/<ID>-out/<mk> into /verif/seeded/<ID>-<mk>/"""
import sys, os, shutil, json, glob, re
pid, mk, pkg = sys.argv[1:4]
rnd = sys.argv[4] if len(sys.argv) > 4 else ""
src = f"/tmp/mut/{pid}-out{rnd}/{mk}"
dst = f"/verif/seeded/{pid}-" + (f"r{rnd}" if rnd else "") + mk
os.makedirs(dst, exist_ok=True)
shutil.copy(f"{src}/patch.diff", dst)
for f in glob.glob(f"{src}/zz_demo_*_test.go"):
    shutil.copy(f, dst)
notes = open(f"{src}/notes.md").read()
shutil.copy(f"{src}/notes.md", dst)
files = re.findall(r"^\+\+\+ b/(\S+)", open(f"{src}/patch.diff").read(), re.M)
meta = {
    "property": pid,
    "source": "independent sub-agent given only the property text and a scratch worktree" + (" (round %s: asked for less obvious changes than a first reviewer would make)" % rnd if rnd else ""),
    "files_changed": files,
    "demo": {"file": os.path.basename(glob.glob(f"{src}/zz_demo_*_test.go")[0]), "package_dir": pkg},
    "needs_to_manifest": "see notes.md",
    "confirmed": {
        "how": "tools/confirm_mutant.sh in scratch worktree /tmp/mut/%s (removed afterwards)" % pid,
        "suite_with_change": "pass", "demo_with_change": "fail", "demo_without_change": "pass",
    },
    "detected_by": None,
}
json.dump(meta, open(f"{dst}/meta.json", "w"), indent=1)
print("kept", dst)
