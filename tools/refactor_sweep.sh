#!/bin/sh
# refactor_sweep.sh <dir-with-r*.diff>... : apply each behaviour-preserving refactoring to the repo copy ($REPO), run every
# check, undo it. A check that exits non-zero or prints VIOLATION on such a tree is a false alarm.
V="$(cd "$(dirname "$0")/.." && pwd)"; REPO="${REPO:-/repo}"; export REPO
# usage: refactor_sweep.sh <dir> ["props to run"]  (all checks when no list is given)
d="$1"; [ -n "$2" ] && export PROPS="$2"
for d in "$d"; do
  for p in $(ls "$d"/r*.diff | xargs -n1 realpath); do
    git -C "$REPO" diff --quiet || { echo "$REPO dirty"; exit 2; }
    git -C "$REPO" apply "$p" || { echo "$p does not apply"; continue; }
    R=$("$V/run_all.sh" quick 2>&1)
    git -C "$REPO" checkout -- .
    echo "== $p: nonzero_exits=$(echo "$R" | grep -c 'exit=[1-9]') violations=$(echo "$R" | grep -c '^VIOLATION') inconclusive=$(echo "$R" | grep -c '^INCONCLUSIVE') unconfirmed=$(echo "$R" | grep -c '^UNCONFIRMED') mismatches=$(echo "$R" | grep -c '^VALIDATION-MISMATCH') havoc=$(echo "$R" | grep -c '^HAVOC')"
    echo "$R" | grep -E '^(VIOLATION|INCONCLUSIVE|UNCONFIRMED|VALIDATION-MISMATCH|HAVOC)' | cut -c1-300
  done
done
