#!/usr/bin/env python3
"""update_meta.py <SWEEP file>: record in each seeded/<name>/meta.json which harnesses of which check detected it."""
import sys, json, re, os
for line in open(sys.argv[1]):
    m = re.match(r'(\S+) property=(\S+) tier=(\S+) exit=(\d+) violations=(\d+) inconclusive=(\d+) caught_by=\[(.*)\]', line.strip())
    if not m:
        continue
    name, prop, tier, rc, nv, ni, by = m.groups()
    p = f"/verif/seeded/{name}/meta.json"
    if not os.path.exists(p):
        continue
    meta = json.load(open(p))
    if int(nv) > 0:
        meta["detected_by"] = {"check": prop, "tier": tier, "harnesses": by.split(), "violations_reported": int(nv)}
    else:
        meta["detected_by"] = {"check": prop, "tier": tier, "harnesses": [], "note": "not detected; inconclusive lines: %s (see DESIGN.md 9.5)" % ni}
    json.dump(meta, open(p, "w"), indent=1)
