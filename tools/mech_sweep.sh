#!/bin/sh
# mech_sweep.sh <K> <seed>: for each listed source file, K pseudo-randomly chosen mechanical mutants (tools/mutate).
# A mutant that still builds and passes the repository's tests is run against the checks of the properties anchored in
# that file. Output: one line per mutant (BUILD-FAIL / KILLED-BY-TESTS / CAUGHT / SURVIVED).
K="${1:-4}"; SEED="${2:-1}"
V="$(cd "$(dirname "$0")/.." && pwd)"; REPO="${REPO:-/repo}"; export VERIF_REPO="$REPO"
export GOFLAGS=-mod=mod GOPROXY=off GOSUMDB=off GOTOOLCHAIN=local
M="$V/engine/bin/mutate"
[ -x "$M" ] || (cd "$V/tools/mutate" && go build -o "$M" .)
(cd "$V" && ./check C08 quick >/dev/null 2>&1)
while read -r F PROPS; do
  [ -z "$F" ] && continue
  N=$("$M" -file "$REPO/$F" -list | head -1)
  for IDX in $(python3 -c "import random,sys; r=random.Random('$SEED'+'$F'); print(' '.join(map(str,sorted(r.sample(range($N), min($K,$N))))))"); do
    git -C "$REPO" diff --quiet || { echo "$REPO dirty"; exit 2; }
    DESC=$("$M" -file "$REPO/$F" -n "$IDX" -o /tmp/mech.$$.go 2>&1) && cp /tmp/mech.$$.go "$REPO/$F"
    if ! (cd "$REPO" && go build ./... >/dev/null 2>&1); then echo "$F#$IDX [$DESC] BUILD-FAIL"; git -C "$REPO" checkout -- .; continue; fi
    if ! (cd "$REPO" && timeout 600 go test -vet=off -count=1 ./... >/dev/null 2>&1); then echo "$F#$IDX [$DESC] KILLED-BY-TESTS"; git -C "$REPO" checkout -- .; continue; fi
    CAUGHT=""; NOTE=""
    for P in $PROPS; do
      R=$(cd "$V" && ./check "$P" quick 2>&1)
      echo "$R" | grep -q '^VIOLATION' && CAUGHT="$CAUGHT $P"
      echo "$R" | grep -q '^INCONCLUSIVE' && NOTE="$NOTE inconclusive:$P"
      echo "$R" | grep -q '^UNCONFIRMED' && NOTE="$NOTE unconfirmed:$P"
    done
    git -C "$REPO" checkout -- .
    if [ -n "$CAUGHT" ]; then echo "$F#$IDX [$DESC] CAUGHT by$CAUGHT$NOTE"; else echo "$F#$IDX [$DESC] SURVIVED (checks run: $PROPS)$NOTE"; fi
  done
done <<LIST
registration/register_node_led.go C01 C03
registration/authorize.go C01 C04 C10
registration/register_server_led.go C01 C06
tls/server.go C05 C02
tls/standard.go C02 C07
tls/client.go C07 C16
tls/common.go C20 C14
protocol/tls.go C02 C14 C16
protocol/listener.go C02 C14 C15
protocol/conn.go C16
rotation/roots.go C08 C09
rotation/node.go C10
encryption.go C11
types/node_information.go C12 C11
types/node_credentials.go C12 C04
types/root_certificates.go C12
types/server_led_activation_token.go C12 C06
net/splitlistener.go C17
storage/inmem/inmem.go C19
storage/file/file.go C19
LIST
rm -f /tmp/mech.$$.go
