#!/bin/sh
# refactor_targeted2.sh: the refactorings again, against the checks extended after the first targeted run
# (second batch of round 3). Output: seeded/refactorings/SWEEP-targeted2.txt
V="$(cd "$(dirname "$0")/.." && pwd)"; cd "$V"
OUT=seeded/refactorings/SWEEP-targeted2.txt; : > $OUT
run() { tools/refactor_sweep.sh "seeded/refactorings/$1" "$2" | tee -a $OUT; }
run C02 "C15 C16 C14"
run C05 "C05 C16 C20 C07"
run C08 "C08 C09"
run C01 "C03 C15"
run C12 "C11 C12"
