#!/bin/sh
# sweep_seeded.sh [tier] [only-pattern]: run every kept seeded change against the check of its property; writes seeded/SWEEP-<tier>.txt
T="${1:-quick}"; PAT="${2:-}"
V="$(cd "$(dirname "$0")/.." && pwd)"; cd "$V"
OUT=/tmp/sweep.$$; : > $OUT
for d in seeded/*${PAT}*/; do
  [ -f "$d/patch.diff" ] || continue
  ID=$(jq -r .property "$d/meta.json")
  R=$(tools/try_mutant.sh "$V/$d/patch.diff" "$ID" "$T" 2>&1)
  RC=$(echo "$R" | sed -n 's/^exit=//p')
  N=$(echo "$R" | grep -c '^VIOLATION')
  H=$(echo "$R" | sed -n 's/^VIOLATION.*replays\/[A-Z0-9]*-\([A-Za-z0-9]*\)-.*/\1/p' | sort -u | tr '\n' ' ')
  I=$(echo "$R" | grep -c '^INCONCLUSIVE')
  echo "$(basename $d) property=$ID tier=$T exit=$RC violations=$N inconclusive=$I caught_by=[$H]" | tee -a $OUT
done
if [ -z "$PAT" ]; then mv $OUT seeded/SWEEP-$T.txt; else rm -f $OUT; fi
