#!/bin/sh
# refactor_targeted.sh: the behaviour-preserving refactorings of seeded/refactorings, each against the checks whose
# harnesses execute the refactored file (a violation or non-zero exit here is a false alarm). Output: seeded/refactorings/SWEEP-targeted.txt
V="$(cd "$(dirname "$0")/.." && pwd)"; cd "$V"
OUT=seeded/refactorings/SWEEP-targeted.txt; : > $OUT
run() { # dir props
  tools/refactor_sweep.sh "seeded/refactorings/$1" "$2" | tee -a $OUT
}
run C01 "C01 C04 C06 C13"
run C02 "C02 C07 C14 C16 C17"
run C05 "C05 C02 C20"
run C08 "C08 C09 C10 C13"
run C12 "C12 C04 C06"
run C17 "C17 C19 C13 C06"
