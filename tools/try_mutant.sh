#!/bin/sh
# try_mutant.sh <patch.diff> <property id> [tier]   -- apply a seeded change to /repo, run the check, undo it straight afterwards
P="$1"; ID="$2"; T="${3:-quick}"
cd /repo && git diff --quiet || { echo "/repo is dirty"; exit 2; }
git -C /repo apply "$P" || exit 2
cd /verif && ./check "$ID" "$T" > /tmp/try-mutant.$$ 2>&1; RC=$?
git -C /repo checkout -- .
grep -E "^(VIOLATION|UNCONFIRMED|INCONCLUSIVE|KNOWN|HAVOC|VALIDATION|NOTE)|quick:|thorough:" /tmp/try-mutant.$$ | cut -c1-400
echo "exit=$RC"; rm -f /tmp/try-mutant.$$
