#!/bin/sh
# try_mutant.sh <patch.diff> <property id> [tier]   -- apply a seeded change to the repo, run the check, undo it straight afterwards
# REPO (default /repo) is the tree the change is applied to and the checks run against.
P="$1"; ID="$2"; T="${3:-quick}"
REPO="${REPO:-/repo}"; export VERIF_REPO="$REPO"
V="$(cd "$(dirname "$0")/.." && pwd)"
git -C "$REPO" diff --quiet || { echo "$REPO is dirty"; exit 2; }
git -C "$REPO" apply "$P" || exit 2
(cd "$V" && ./check "$ID" "$T") > /tmp/try-mutant.$$ 2>&1; RC=$?
git -C "$REPO" checkout -- .
grep -E "^(VIOLATION|UNCONFIRMED|INCONCLUSIVE|KNOWN|HAVOC|VALIDATION|NOTE)|quick:|thorough:" /tmp/try-mutant.$$ | cut -c1-400
echo "exit=$RC"; rm -f /tmp/try-mutant.$$
