// mutate: mechanical mutation operators over one Go source file.
//
//	mutate -file f.go -list            print the number of mutation points and a one-line description of each
//	mutate -file f.go -n K -o out.go   write the K-th mutant (0-based) of f.go to out.go
//
// Operators: negate an if condition; swap a comparison or logical operator (== != < <= > >= && ||); drop the body of an
// if statement that only returns/continues (a dropped check); delete an assignment or expression statement.
package main

import (
	"bytes"
	"flag"
	"fmt"
	"go/ast"
	"go/parser"
	"go/printer"
	"go/token"
	"os"
)

type point struct {
	desc  string
	apply func()
}

func main() {
	file := flag.String("file", "", "source file")
	list := flag.Bool("list", false, "list mutation points")
	n := flag.Int("n", -1, "mutant index")
	out := flag.String("o", "", "output file")
	flag.Parse()
	fset := token.NewFileSet()
	f, err := parser.ParseFile(fset, *file, nil, parser.ParseComments)
	if err != nil {
		fmt.Fprintln(os.Stderr, err)
		os.Exit(2)
	}
	var pts []point
	pos := func(p token.Pos) string { return fmt.Sprintf("%s:%d", *file, fset.Position(p).Line) }
	swap := map[token.Token]token.Token{token.EQL: token.NEQ, token.NEQ: token.EQL, token.LSS: token.LEQ, token.LEQ: token.LSS,
		token.GTR: token.GEQ, token.GEQ: token.GTR, token.LAND: token.LOR, token.LOR: token.LAND}
	ast.Inspect(f, func(nd ast.Node) bool {
		switch x := nd.(type) {
		case *ast.FuncDecl:
			if x.Name.Name == "init" {
				return false
			}
		case *ast.IfStmt:
			xx := x
			pts = append(pts, point{"negate condition at " + pos(x.Pos()), func() { xx.Cond = &ast.UnaryExpr{Op: token.NOT, X: &ast.ParenExpr{X: xx.Cond}} }})
			if len(x.Body.List) > 0 && x.Else == nil {
				switch x.Body.List[len(x.Body.List)-1].(type) {
				case *ast.ReturnStmt, *ast.BranchStmt:
					pts = append(pts, point{"drop the check at " + pos(x.Pos()), func() { xx.Cond = &ast.Ident{Name: "false"} }})
				}
			}
		case *ast.BinaryExpr:
			if to, ok := swap[x.Op]; ok {
				xx := x
				pts = append(pts, point{fmt.Sprintf("%s -> %s at %s", x.Op, to, pos(x.OpPos)), func() { xx.Op = to }})
			}
		case *ast.BlockStmt:
			for i, st := range x.List {
				switch s := st.(type) {
				case *ast.AssignStmt:
					if s.Tok == token.ASSIGN { // plain assignment (not a declaration): can be deleted without breaking compilation in most cases
						xx, ii := x, i
						pts = append(pts, point{"delete assignment at " + pos(s.Pos()), func() { xx.List[ii] = &ast.EmptyStmt{} }})
					}
				case *ast.ExprStmt:
					if _, isCall := s.X.(*ast.CallExpr); isCall {
						xx, ii := x, i
						pts = append(pts, point{"delete call statement at " + pos(s.Pos()), func() { xx.List[ii] = &ast.EmptyStmt{} }})
					}
				}
			}
		}
		return true
	})
	if *list {
		fmt.Println(len(pts))
		for i, p := range pts {
			fmt.Printf("%d %s\n", i, p.desc)
		}
		return
	}
	if *n < 0 || *n >= len(pts) {
		fmt.Fprintln(os.Stderr, "no such mutant")
		os.Exit(2)
	}
	pts[*n].apply()
	var buf bytes.Buffer
	if err := printer.Fprint(&buf, fset, f); err != nil {
		fmt.Fprintln(os.Stderr, err)
		os.Exit(2)
	}
	fmt.Fprintln(os.Stderr, pts[*n].desc)
	if err := os.WriteFile(*out, buf.Bytes(), 0o644); err != nil {
		fmt.Fprintln(os.Stderr, err)
		os.Exit(2)
	}
}
