#!/bin/sh
# run every registered check (tier $1, default quick), 4 at a time; summary on stdout
T="${1:-quick}"
cd "$(dirname "$0")"
./check C05 quick >/dev/null 2>&1 || true   # builds the engine once
jq -r '.checks[].property_id' MANIFEST.json | xargs -P 4 -I{} sh -c "./check {} $T > /tmp/verif-check-{}.log 2>&1; echo {} exit=\$?"
for f in /tmp/verif-check-C*.log; do cat "$f"; done
