#!/bin/sh
# run every registered check (or those named in $PROPS) (tier $1, default quick), 4 at a time; summary on stdout. REPO (default /repo) is the tree checked.
T="${1:-quick}"
cd "$(dirname "$0")"
[ -n "$REPO" ] && export VERIF_REPO="$REPO"
L=$(mktemp -d)
./check C08 quick >/dev/null 2>&1 || true   # builds the engine once
{ if [ -n "$PROPS" ]; then echo $PROPS | tr ' ' '\n'; else jq -r '.checks[].property_id' MANIFEST.json; fi; } | xargs -P 4 -I{} sh -c "./check {} $T > $L/{}.log 2>&1; echo {} exit=\$?"
cat $L/C*.log; rm -rf $L
