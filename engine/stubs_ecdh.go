package main

import (
	"fmt"

	"golang.org/x/tools/go/ssa"
)

type CurveV struct{}
type EcdhPrivV struct{ raw string }
type EcdhPubV struct{ raw string }

// public-key bytes expr -> private-key bytes expr, for keys derived inside the run
var x25519PubOf = map[string]string{}

func (e *Engine) stub7(fn *ssa.Function, args []any) (any, bool) {
	switch fn.String() {
	case "crypto/ecdh.X25519":
		return IfaceV{namedType("crypto/ecdh", "Curve"), &CurveV{}}, true
	case "(*crypto/ecdh.PrivateKey).PublicKey":
		pr := (*args[0].(Ptr).cells)[0].(*EcdhPrivV)
		pub := "(x25519pub " + pr.raw + ")"
		x25519PubOf[pub] = pr.raw
		e.S.Send("(assert (= (str.len " + pub + ") 32))")
		return newObj(&EcdhPubV{pub}), true
	case "(*crypto/ecdh.PublicKey).Bytes":
		return BytesV{E: (*args[0].(Ptr).cells)[0].(*EcdhPubV).raw}, true
	case "(*crypto/ecdh.PrivateKey).ECDH":
		pr := (*args[0].(Ptr).cells)[0].(*EcdhPrivV)
		pb := (*args[1].(Ptr).cells)[0].(*EcdhPubV)
		other := ""
		if sym, ok := e.resolve(pb.raw, keysOf(x25519PubOf)); ok {
			other = x25519PubOf[sym]
		}
		if other == "" { // peer public key of unknown origin: plain DH term
			ex := "(dh " + pr.raw + " " + pb.raw + ")"
			e.S.Send("(assert (= (str.len " + ex + ") 32))")
			return Tuple{BytesV{E: ex}, IfaceV{}}, true
		}
		a, b := pr.raw, other
		if a > b {
			a, b = b, a
		}
		ex := "(dhs " + a + " " + b + ")"
		e.S.Send("(assert (= (str.len " + ex + ") 32))")
		return Tuple{BytesV{E: ex}, IfaceV{}}, true // commutative by construction
	case "(crypto/ed25519.PrivateKey).Sign":
		priv := args[0].(BytesV)
		k := ""
		if sym, ok := e.resolve(bytesE(priv), keysOf(privIdx)); ok {
			k = privIdx[sym]
		}
		msg := args[2].(BytesV)
		sym := e.freshSym("String", "sig")
		e.S.Send(fmt.Sprintf("(assert (and (= (str.len %s) 64) (str.prefixof \"\\u{1}g\" %s)))", sym, sym))
		return Tuple{BytesV{E: sym, SigKey: k, SigMsg: bytesE(msg)}, IfaceV{}}, true
	}
	return nil, false
}

func (e *Engine) curveMethod(name string, args []any) any {
	b := args[0].(BytesV)
	ok := SymBool{"(= (str.len " + bytesE(b) + ") 32)"}
	if !e.branch(ok) {
		return Tuple{nil, e.mkErr("crypto/ecdh: invalid key size")}
	}
	switch name {
	case "NewPrivateKey":
		return Tuple{newObj(&EcdhPrivV{bytesE(b)}), IfaceV{}}
	case "NewPublicKey":
		return Tuple{newObj(&EcdhPubV{bytesE(b)}), IfaceV{}}
	}
	panic("curve method " + name)
}
