package main

import (
	"fmt"

	"golang.org/x/tools/go/ssa"
)

type CurveV struct{}
type EcdhPrivV struct{ raw string }
type EcdhPubV struct{ raw string }

// public-key bytes expr -> private-key bytes expr, for keys derived inside the run
var x25519PubOf = map[string]string{}

func (e *Engine) stub7(fn *ssa.Function, args []any) (any, bool) {
	switch fn.String() {
	case "crypto/ecdh.X25519":
		return IfaceV{namedType("crypto/ecdh", "Curve"), &CurveV{}}, true
	case "(*crypto/ecdh.PrivateKey).PublicKey":
		pr := (*args[0].(Ptr).cells)[0].(*EcdhPrivV)
		return newObj(&EcdhPubV{e.x25519Pub(pr.raw)}), true
	case "(*crypto/ecdh.PublicKey).Bytes":
		return BytesV{E: (*args[0].(Ptr).cells)[0].(*EcdhPubV).raw}, true
	case "(*crypto/ecdh.PrivateKey).ECDH":
		pr := (*args[0].(Ptr).cells)[0].(*EcdhPrivV)
		pb := (*args[1].(Ptr).cells)[0].(*EcdhPubV)
		other := ""
		if sym, ok := e.resolve(pb.raw, keysOf(x25519PubOf)); ok {
			other = x25519PubOf[sym]
		}
		// crypto/ecdh refuses the all-zero shared secret of a low-order point; the all-zero point stands for them
		if e.branch(SymBool{"(= " + pb.raw + " " + smtStr(string(make([]byte, 32))) + ")"}) {
			return Tuple{BytesV{Nil: true}, e.mkErr("crypto/ecdh: bad X25519 remote ECDH input: low order point")}, true
		}
		if other == "" { // peer public key of unknown origin: plain DH term
			ex := "(dh " + pr.raw + " " + pb.raw + ")"
			e.S.Send("(assert (= (str.len " + ex + ") 32))")
			return Tuple{BytesV{E: ex}, IfaceV{}}, true
		}
		return Tuple{BytesV{E: e.dhShared(pr.raw, other)}, IfaceV{}}, true
	case "(crypto/ed25519.PrivateKey).Sign":
		priv := args[0].(BytesV)
		k := ""
		if sym, ok := e.resolve(bytesE(priv), keysOf(privIdx)); ok {
			k = privIdx[sym]
		}
		msg := args[2].(BytesV)
		sym := e.freshSym("String", "sig")
		e.S.Send(fmt.Sprintf("(assert (and (= (str.len %s) 64) (str.prefixof \"\\u{1}g\" %s)))", sym, sym))
		return Tuple{BytesV{E: sym, SigKey: k, SigMsg: bytesE(msg)}, IfaceV{}}, true
	}
	return nil, false
}

// dhShared is the X25519 shared secret of two private scalars: commutative, and (assumption) different
// unordered key pairs never collide. Both facts are asserted as ground instances over the terms of the run.
func (e *Engine) dhShared(a, b string) string {
	ex := "(dhs " + a + " " + b + ")"
	for _, p := range e.dhPairs {
		if p[0] == a && p[1] == b {
			return ex
		}
	}
	e.S.Send(fmt.Sprintf("(assert (and (= (str.len %s) 32) (str.prefixof \"\\u{1}D\" %s) (= %s (dhs %s %s))))", ex, ex, ex, b, a))
	for _, p := range e.dhPairs {
		e.S.Send(fmt.Sprintf("(assert (=> (= %s (dhs %s %s)) (or (and (= %s %s) (= %s %s)) (and (= %s %s) (= %s %s)))))", ex, p[0], p[1], a, p[0], b, p[1], a, p[1], b, p[0]))
	}
	e.dhPairs = append(e.dhPairs, [2]string{a, b})
	return ex
}

// x25519Pub registers the public key of private scalar raw (injective: distinct scalars, distinct points).
func (e *Engine) x25519Pub(raw string) string {
	pub := "(x25519pub " + raw + ")"
	if _, ok := x25519PubOf[pub]; !ok {
		e.S.Send("(assert (and (= (str.len " + pub + ") 32) (str.prefixof \"\\u{1}Q\" " + pub + ")))")
		for other, oraw := range x25519PubOf {
			e.S.Send(fmt.Sprintf("(assert (=> (= %s %s) (= %s %s)))", pub, other, raw, oraw))
		}
		x25519PubOf[pub] = raw
	}
	return pub
}

func (e *Engine) curveMethod(name string, args []any) any {
	b := args[0].(BytesV)
	ok := SymBool{"(= (str.len " + bytesE(b) + ") 32)"}
	if !e.branch(ok) {
		return Tuple{nil, e.mkErr("crypto/ecdh: invalid key size")}
	}
	switch name {
	case "NewPrivateKey":
		return Tuple{newObj(&EcdhPrivV{bytesE(b)}), IfaceV{}}
	case "NewPublicKey":
		return Tuple{newObj(&EcdhPubV{bytesE(b)}), IfaceV{}}
	}
	panic("curve method " + name)
}
