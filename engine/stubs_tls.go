package main

import (
	"fmt"
	"go/types"
	"strconv"
	"strings"

	"golang.org/x/tools/go/ssa"
)

// ---------- helpers on struct values by field name ----------
func structOf(t types.Type) *types.Struct {
	if p, ok := t.Underlying().(*types.Pointer); ok {
		t = p.Elem()
	}
	return t.Underlying().(*types.Struct)
}
func hasField(st *types.Struct, name string) bool {
	for i := 0; i < st.NumFields(); i++ {
		if st.Field(i).Name() == name {
			return true
		}
	}
	return false
}
func fieldIdx(st *types.Struct, name string) int {
	for i := 0; i < st.NumFields(); i++ {
		if st.Field(i).Name() == name {
			return i
		}
	}
	panic("no field " + name)
}
func getF(sv StructV, t types.Type, name string) any { return sv[fieldIdx(structOf(t), name)] }
func setF(sv StructV, t types.Type, name string, v any) {
	sv[fieldIdx(structOf(t), name)] = v
}
func deref(v any) StructV {
	p := v.(Ptr)
	return (*p.cells)[p.idx].(StructV)
}
func newObj(v any) Ptr {
	cells := []any{v}
	noteAlloc(cells)
	return Ptr{&cells, 0}
}

var (
	tCert, tConfig, tHello, tConnState, tVerifyOpts types.Type
)

func initTLSTypes() {
	tCert = namedType("crypto/x509", "Certificate")
	tVerifyOpts = namedType("crypto/x509", "VerifyOptions")
	tConfig = namedType("crypto/tls", "Config")
	tHello = namedType("crypto/tls", "ClientHelloInfo")
	tConnState = namedType("crypto/tls", "ConnectionState")
}

// ---------- keys ----------
// private-key encodings: bytes expr -> key index expr
var privIdx = map[string]string{}

type KeyPairV struct{ Idx string } // ed25519 private key object (as crypto.Signer / PrivateKey)

func pkixE(k string) string {
	if n, err := strconv.Atoi(k); err == nil { // concrete index: emit the literal the chain would produce
		return fmt.Sprintf("\"\\u{1}P%03d\"", n)
	}
	return "(pkix " + k + ")"
}
func pubE(k string) string { return "(pubof " + pkixE(k) + ")" }
func (e *Engine) newKeyIdx() string {
	e.keyCtr++
	return fmt.Sprintf("%d", 100+e.keyCtr)
}

// ---------- certificates ----------
// DER symbol -> template snapshot (+ subject public key, signer key index)
type certProv struct {
	tmpl   StructV
	pub    any    // IfaceV holding the subject public key
	signer string // key index expr of the signing key
}

var certOf = map[string]*certProv{}

type PoolV struct{ certs []Ptr }
type TLSConnV struct {
	cfg    Ptr // *tls.Config
	adv    StructV
	advT   types.Type
	state  StructV
	done   bool
	client bool
}

func (e *Engine) parseCert(der BytesV) (Ptr, bool) {
	sym, ok := e.resolve(bytesE(der), keysOf(certOf))
	if !ok {
		return Ptr{}, false
	}
	cp := certOf[sym]
	sv := deepCopy(cp.tmpl, map[*[]any]*[]any{}).(StructV)
	setF(sv, tCert, "Raw", der)
	setF(sv, tCert, "PublicKey", cp.pub)
	name := getF(sv, tCert, "Subject").(StructV)
	cn := name[fieldIdx(structOf(namedType("crypto/x509/pkix", "Name")), "CommonName")]
	setF(sv, tCert, "RawSubject", BytesV{E: "(str.++ \"\\u{1}N\" " + strE(cn) + ")"})
	// the signature records who signed (model): signer's public key
	setF(sv, tCert, "Signature", BytesV{E: "(str.++ \"\\u{1}G\" " + pubE(cp.signer) + ")"})
	return newObj(sv), true
}

func pubOfIface(v any) string { // public key bytes expr of an ed25519.PublicKey in an interface
	return bytesE(v.(IfaceV).V)
}

func (e *Engine) stub6(fn *ssa.Function, args []any) (any, bool) {
	switch fn.String() {
	case "crypto/ed25519.GenerateKey":
		k := e.newKeyIdx()
		pub := BytesV{E: pubE(k)}
		priv := BytesV{E: "(str.++ \"\\u{1}S\" " + pkixE(k) + ")"}
		privIdx[priv.E] = k
		return Tuple{pub, priv, IfaceV{}}, true
	case "crypto/x509.MarshalPKCS8PrivateKey":
		b := args[0].(IfaceV).V.(BytesV)
		out := BytesV{E: "(str.++ \"\\u{1}s\" " + b.E + ")"}
		privIdx[out.E] = privIdx[b.E]
		return Tuple{out, IfaceV{}}, true
	case "crypto/x509.ParsePKCS8PrivateKey":
		b := args[0].(BytesV)
		if sym, ok := e.resolve(bytesE(b), keysOf(privIdx)); ok {
			k := privIdx[sym]
			priv := BytesV{E: "(str.++ \"\\u{1}S\" " + pkixE(k) + ")"}
			privIdx[priv.E] = k
			return Tuple{IfaceV{namedType("crypto/ed25519", "PrivateKey"), priv}, IfaceV{}}, true
		}
		return Tuple{IfaceV{}, e.mkErr("x509: failed to parse private key")}, true
	case "crypto/x509.MarshalPKIXPublicKey":
		pub := bytesE(args[0].(IfaceV).V)
		// pubof(pkix k) -> pkix k   (inverse on the constructed form)
		if strings.HasPrefix(pub, "(pubof ") {
			return Tuple{BytesV{E: strings.TrimSuffix(strings.TrimPrefix(pub, "(pubof "), ")")}, IfaceV{}}, true
		}
		return Tuple{BytesV{E: "(pkixof " + pub + ")"}, IfaceV{}}, true
	case "crypto/x509.CreateCertificate":
		tmpl := deref(args[1])
		var signer string
		switch pv := args[4].(IfaceV).V.(type) {
		case BytesV:
			signer = privIdx[bytesE(pv)]
		}
		if signer == "" {
			panic("CreateCertificate: unknown signer")
		}
		sym := e.freshSym("String", "der")
		e.S.Send(fmt.Sprintf("(assert (str.prefixof \"\\u{1}X\" %s))", sym))
		certOf[sym] = &certProv{tmpl: deepCopy(tmpl, map[*[]any]*[]any{}).(StructV), pub: args[3], signer: signer}
		e.CertLog = append(e.CertLog, sym)
		return Tuple{BytesV{E: sym}, IfaceV{}}, true
	case "crypto/x509.ParseCertificate":
		if p, ok := e.parseCert(args[0].(BytesV)); ok {
			return Tuple{p, IfaceV{}}, true
		}
		return Tuple{nil, e.mkErr("x509: malformed certificate")}, true
	case "crypto/x509.NewCertPool":
		return newObj(&PoolV{}), true
	case "(*crypto/x509.CertPool).Clone":
		pool := (*args[0].(Ptr).cells)[0].(*PoolV)
		return newObj(&PoolV{certs: append([]Ptr{}, pool.certs...)}), true
	case "(*crypto/x509.CertPool).AddCert":
		pool := (*args[0].(Ptr).cells)[0].(*PoolV)
		pool.certs = append(pool.certs, args[1].(Ptr))
		return nil, true
	case "(*crypto/x509.Certificate).Verify":
		leaf := deref(args[0])
		opts := args[1].(StructV)
		poolP, _ := getF(opts, tVerifyOpts, "Roots").(Ptr)
		var now string
		if ct := getF(opts, tVerifyOpts, "CurrentTime").(TimeV); strings.Contains(ct.E, "62135596800") {
			now = e.clock().E
		} else {
			now = ct.E
		}
		within := func(c StructV) string {
			return fmt.Sprintf("(and (<= %s %s) (<= %s %s))", getF(c, tCert, "NotBefore").(TimeV).E, now, now, getF(c, tCert, "NotAfter").(TimeV).E)
		}
		// EKU: any requested usage present in leaf (or leaf has none)
		ekuOK := "true"
		want, _ := getF(opts, tVerifyOpts, "KeyUsages").(SliceV)
		have, _ := getF(leaf, tCert, "ExtKeyUsage").(SliceV)
		if want.len > 0 && have.len > 0 {
			ekuOK = "false"
			for i := 0; i < want.len; i++ {
				for j := 0; j < have.len; j++ {
					if (*want.arr)[want.off+i] == (*have.arr)[have.off+j] {
						ekuOK = "true"
					}
				}
			}
		}
		dnsOK := "true"
		if dn := getF(opts, tVerifyOpts, "DNSName"); dn != "" {
			var alts []string
			names, _ := getF(leaf, tCert, "DNSNames").(SliceV)
			for i := 0; i < names.len; i++ {
				alts = append(alts, "(= "+strE(dn)+" "+strE((*names.arr)[names.off+i])+")")
			}
			dnsOK = "(or false " + strings.Join(alts, " ") + ")"
		}
		var chains []string
		if poolP.cells != nil {
			for _, rp := range (*poolP.cells)[0].(*PoolV).certs {
				r := deref(rp)
				signedBy := "(= " + bytesE(getF(leaf, tCert, "Signature")) + " (str.++ \"\\u{1}G\" " + pubOfIface(getF(r, tCert, "PublicKey")) + "))"
				isCA := boolE(getF(r, tCert, "IsCA"))
				chains = append(chains, fmt.Sprintf("(and %s %s %s)", signedBy, isCA, within(r)))
			}
		}
		cond := SymBool{fmt.Sprintf("(and (or false %s) %s %s %s)", strings.Join(chains, " "), within(leaf), ekuOK, dnsOK)}
		if e.branch(cond) {
			return Tuple{SliceV{}, IfaceV{}}, true
		}
		return Tuple{SliceV{}, e.mkErr("x509: certificate verification failed (model)")}, true
	case "math/rand.Int63":
		return SymInt{e.freshSym("Int", "rnd")}, true
	case "math/big.NewInt":
		return newObj(OpaqueV{"bigint"}), true
	case "crypto/tls.Server":
		adv := args[0].(IfaceV)
		c := &TLSConnV{cfg: args[1].(Ptr), adv: deref(adv.V), advT: adv.T}
		return newObj(c), true
	case "crypto/tls.Client":
		adv := args[0].(IfaceV)
		c := &TLSConnV{cfg: args[1].(Ptr), adv: deref(adv.V), advT: adv.T, client: true}
		return newObj(c), true
	case "(*crypto/tls.Conn).HandshakeContext":
		c := (*args[0].(Ptr).cells)[0].(*TLSConnV)
		// a handshake under a context that is already cancelled fails with the context's error before anything is sent
		if cx, ok := args[1].(IfaceV); ok {
			if cv, isCtx := cx.V.(*CtxV); isCtx && cv.done {
				return e.ctxMethod(cv, "Err"), true
			}
		}
		if c.client {
			return e.clientHandshake(c), true
		}
		return e.serverHandshake(c), true
	case "(*crypto/tls.Conn).ConnectionState":
		c := (*args[0].(Ptr).cells)[0].(*TLSConnV)
		if c.state == nil {
			return zero(tConnState), true
		}
		return copyVal(c.state), true
	case "(*crypto/tls.Conn).Close":
		// a peer that reset the connection once the handshake was over: the close_notify write fails and Close
		// reports the harness-declared ResetErr (shaped like *net.OpError)
		c := (*args[0].(Ptr).cells)[0].(*TLSConnV)
		if advSt := structOf(c.advT); advSt != nil && hasField(advSt, "Reset") && e.branch(c.adv[fieldIdx(advSt, "Reset")]) {
			return c.adv[fieldIdx(advSt, "ResetErr")], true
		}
		return IfaceV{}, true
	}
	return nil, false
}

// callField calls the func-typed field `name` of struct sv (type t) if non-nil.
func (e *Engine) callField(sv StructV, t types.Type, name string, args ...any) (any, bool) {
	cl, ok := getF(sv, t, name).(Closure)
	if !ok || cl.fn == nil {
		return nil, false
	}
	return e.call(cl.fn, args, cl.bind), true
}

// serverHandshake is the contract model of a TLS 1.3 server handshake (DESIGN 3.5).
// The peer is described by the harness object behind the net.Conn: fields
// Protos []string, Chain [][]byte (DER, leaf first), HoldsLeafKey bool.
func (e *Engine) serverHandshake(c *TLSConnV) any {
	fail := func(msg string) any { return e.mkErr("tls: " + msg) }
	advSt := structOf(c.advT)
	// a peer that does not speak TLS at all, or drops the connection before its ClientHello is complete
	if hasField(advSt, "NotTLS") && e.branch(c.adv[fieldIdx(advSt, "NotTLS")]) {
		return fail("first record does not look like a TLS handshake")
	}
	protos := c.adv[fieldIdx(advSt, "Protos")].(SliceV)
	hello := zero(tHello).(StructV)
	setF(hello, tHello, "SupportedProtos", protos)
	helloP := newObj(hello)
	cfg := deref(c.cfg)
	if r, ok := e.callField(cfg, tConfig, "GetConfigForClient", helloP); ok {
		t := r.(Tuple)
		if t[1].(IfaceV).T != nil {
			return t[1] // crypto/tls returns the callback's error (after an internal-error alert)
		}
		if t[0] != nil {
			cfg = deref(t[0])
		}
	}
	// ALPN: server preference order
	negotiated := any("")
	srv, _ := getF(cfg, tConfig, "NextProtos").(SliceV)
	if srv.len > 0 && protos.len > 0 {
		found := false
	outer:
		for i := 0; i < srv.len; i++ {
			for j := 0; j < protos.len; j++ {
				eq := e.binop(tokenEQL, (*srv.arr)[srv.off+i], (*protos.arr)[protos.off+j], nil)
				if e.branch(eq) {
					negotiated, found = (*srv.arr)[srv.off+i], true
					break outer
				}
			}
		}
		if !found {
			return fail("client requested unsupported application protocols")
		}
	}
	// server certificate
	if r, ok := e.callField(cfg, tConfig, "GetCertificate", helloP); ok {
		t := r.(Tuple)
		if t[1].(IfaceV).T != nil {
			return t[1]
		}
		if t[0] == nil {
			certs, _ := getF(cfg, tConfig, "Certificates").(SliceV)
			if certs.len == 0 {
				return fail("no certificates configured")
			}
		}
	} else if certs, _ := getF(cfg, tConfig, "Certificates").(SliceV); certs.len == 0 {
		return fail("no certificates configured")
	}
	// a peer that aborts once it has seen the server's flight (fatal alert / reset): the error the server's
	// handshake returns is the harness-declared AbortErr (shaped like *net.OpError: Temporary() == false)
	if hasField(advSt, "Abort") && e.branch(c.adv[fieldIdx(advSt, "Abort")]) {
		return c.adv[fieldIdx(advSt, "AbortErr")]
	}
	// client certificate
	var peerCerts []any
	if ca, _ := getF(cfg, tConfig, "ClientAuth").(int64); ca >= 1 {
		chain := c.adv[fieldIdx(advSt, "Chain")].(SliceV)
		for i := 0; i < chain.len; i++ {
			p, ok := e.parseCert((*chain.arr)[chain.off+i].(BytesV))
			if !ok {
				return fail("failed to parse client certificate")
			}
			peerCerts = append(peerCerts, p)
		}
		if len(peerCerts) == 0 && (ca == 2 || ca == 4) {
			return fail("client didn't provide a certificate")
		}
	}
	st := zero(tConnState).(StructV)
	setF(st, tConnState, "NegotiatedProtocol", negotiated)
	setF(st, tConnState, "Version", int64(0x0304))
	if len(peerCerts) > 0 {
		arr := append([]any{}, peerCerts...)
		setF(st, tConnState, "PeerCertificates", SliceV{&arr, 0, len(arr), len(arr)})
	}
	if r, ok := e.callField(cfg, tConfig, "VerifyConnection", copyVal(st)); ok {
		if r.(IfaceV).T != nil {
			return r
		}
	}
	// CertificateVerify: the peer must hold the private key of the leaf it presented
	if len(peerCerts) > 0 {
		if !e.branch(c.adv[fieldIdx(advSt, "HoldsLeafKey")]) {
			return fail("invalid signature by the client certificate")
		}
	}
	setF(st, tConnState, "HandshakeComplete", true)
	c.state, c.done = st, true
	return IfaceV{}
}

// clientHandshake: contract model of a TLS 1.3 client handshake against a peer (the server) described by the
// harness object behind the net.Conn: fields Proto string (the ALPN value the server selects), Chain [][]byte,
// HoldsLeafKey bool, RequestsClientCert bool. With InsecureSkipVerify the only guard is VerifyConnection.
func (e *Engine) clientHandshake(c *TLSConnV) any {
	fail := func(msg string) any { return e.mkErr("tls: " + msg) }
	advSt := structOf(c.advT)
	cfg := deref(c.cfg)
	// a peer whose answer is computed from the client's hello (harness callback, typically the real server-side code):
	// Respond(offered protocols) (selected protocol, certificate chain, accepted)
	if hasField(advSt, "Respond") {
		if cl, ok := c.adv[fieldIdx(advSt, "Respond")].(Closure); ok && cl.fn != nil {
			offered, _ := getF(cfg, tConfig, "NextProtos").(SliceV)
			r := e.call(cl.fn, []any{offered}, cl.bind).(Tuple)
			if !e.branch(r[2]) {
				// the server refused the hello: crypto/tls reports the alert as a *net.OpError; a harness that cares
				// declares that value (RefuseErr)
				if hasField(advSt, "RefuseErr") {
					if re, ok := c.adv[fieldIdx(advSt, "RefuseErr")].(IfaceV); ok && re.T != nil {
						return re
					}
				}
				return fail("handshake failure (the server refused the hello)")
			}
			c.adv[fieldIdx(advSt, "Proto")] = r[0]
			c.adv[fieldIdx(advSt, "Chain")] = r[1]
		}
	}
	chain := c.adv[fieldIdx(advSt, "Chain")].(SliceV)
	var peerCerts []any
	for i := 0; i < chain.len; i++ {
		p, ok := e.parseCert((*chain.arr)[chain.off+i].(BytesV))
		if !ok {
			return fail("failed to parse server certificate")
		}
		peerCerts = append(peerCerts, p)
	}
	if len(peerCerts) == 0 {
		return fail("server sent no certificate")
	}
	if skip, _ := getF(cfg, tConfig, "InsecureSkipVerify").(bool); !skip {
		return fail("model: only InsecureSkipVerify client configurations are supported")
	}
	st := zero(tConnState).(StructV)
	setF(st, tConnState, "NegotiatedProtocol", c.adv[fieldIdx(advSt, "Proto")])
	setF(st, tConnState, "Version", int64(0x0304))
	arr := append([]any{}, peerCerts...)
	setF(st, tConnState, "PeerCertificates", SliceV{&arr, 0, len(arr), len(arr)})
	if r, ok := e.callField(cfg, tConfig, "VerifyConnection", copyVal(st)); ok {
		if r.(IfaceV).T != nil {
			return r
		}
	}
	if !e.branch(c.adv[fieldIdx(advSt, "HoldsLeafKey")]) {
		return fail("invalid signature by the server certificate")
	}
	// crypto/tls answers the certificate request only after the server's certificate and CertificateVerify passed
	if req, _ := c.adv[fieldIdx(advSt, "RequestsClientCert")].(bool); req {
		cri := zero(namedType("crypto/tls", "CertificateRequestInfo")).(StructV)
		setF(cri, namedType("crypto/tls", "CertificateRequestInfo"), "AcceptableCAs", c.adv[fieldIdx(advSt, "AcceptableCAs")])
		if r, ok := e.callField(cfg, tConfig, "GetClientCertificate", newObj(cri)); ok {
			if t := r.(Tuple); t[1].(IfaceV).T != nil {
				return t[1]
			}
		}
	}
	setF(st, tConnState, "HandshakeComplete", true)
	c.state, c.done = st, true
	return IfaceV{}
}
