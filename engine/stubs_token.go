package main

import (
	"fmt"

	"golang.org/x/tools/go/ssa"
)

type HmacV struct{ key string }

// base58: injective uninterpreted encoder with a registry for decoding
var b58Of = map[string]string{} // "(b58enc x)" -> x

func (e *Engine) b58enc(raw string) string {
	enc := "(b58enc " + raw + ")"
	if _, ok := b58Of[enc]; !ok {
		for other, oraw := range b58Of { // ground injectivity instances
			e.S.Send(fmt.Sprintf("(assert (=> (= %s %s) (= %s %s)))", enc, other, raw, oraw))
		}
		e.S.Send(fmt.Sprintf("(assert (and (>= (str.len %s) (str.len %s)) (not (str.contains %s \"_\"))))", enc, raw, enc))
		b58Of[enc] = raw
	}
	return enc
}

func (e *Engine) stub9(fn *ssa.Function, args []any) (any, bool) {
	switch fn.String() {
	case "crypto/hmac.New":
		return IfaceV{namedType("hash", "Hash"), &HmacV{bytesE(args[1])}}, true
	case "github.com/mr-tron/base58.FastBase58Encoding":
		return SymStr{e.b58enc(bytesE(args[0]))}, true
	case "github.com/mr-tron/base58.FastBase58Decoding":
		if sym, ok := e.resolve(strE(args[0]), keysOf(b58Of)); ok {
			return Tuple{BytesV{E: b58Of[sym]}, IfaceV{}}, true
		}
		if e.isGarbage(strE(args[0])) {
			return Tuple{BytesV{E: `""`, Nil: true}, e.mkErr("invalid base58")}, true
		}
		ok := SymBool{e.freshSym("Bool", "b58ok")}
		if e.branch(ok) {
			return Tuple{BytesV{E: e.freshSym("String", "b58dec")}, IfaceV{}}, true
		}
		return Tuple{BytesV{E: `""`, Nil: true}, e.mkErr("invalid base58")}, true
	}
	return nil, false
}

// hmacMethod: Sum(b) appends the MAC of what was written so far (nothing, in this code base) to b.
func (e *Engine) hmacMethod(h *HmacV, name string, args []any) any {
	switch name {
	case "Sum":
		mac := "(mac " + h.key + ")"
		known := false
		for _, k := range e.macKeys {
			known = known || k == h.key
		}
		if !known { // collision resistance: distinct keys, distinct MACs (ground instances over the keys of the run)
			e.S.Send("(assert (= (str.len " + mac + ") 32))")
			for _, k := range e.macKeys {
				e.S.Send(fmt.Sprintf("(assert (=> (= %s (mac %s)) (= %s %s)))", mac, k, h.key, k))
			}
			e.macKeys = append(e.macKeys, h.key)
		}
		return BytesV{E: "(str.++ " + bytesE(args[0]) + " " + mac + ")"}
	}
	panic("hmac method " + name)
}
