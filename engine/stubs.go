package main

import (
	"fmt"
	"go/types"
	"os"
	"sort"
	"strings"

	"golang.org/x/tools/go/ssa"
)

var ErrNilIface = IfaceV{}

func (e *Engine) mkErr(msg string, wrap ...any) any {
	e.trace = append(e.trace, "err: "+msg)
	return IfaceV{T: types.Universe.Lookup("error").Type(), V: &ErrV{msg: msg, wrap: wrap}}
}

func (e *Engine) stub(fn *ssa.Function, args []any) (any, bool) {
	name := fn.String()
	switch name {
	case "fmt.Errorf", "errors.New":
		return e.mkErr(fmt.Sprint(args[0])), true
	case "fmt.Sprintf":
		format := args[0].(string)
		va := args[1].(SliceV)
		var parts []string
		ai := 0
		for i := 0; i < len(format); i++ {
			if format[i] != '%' {
				j := i
				for j < len(format) && format[j] != '%' {
					j++
				}
				parts = append(parts, smtStr(format[i:j]))
				i = j - 1
				continue
			}
			j := i + 1
			for j < len(format) && strings.IndexByte("sdvq", format[j]) < 0 {
				j++
			}
			verb := format[i : j+1]
			arg := (*va.arr)[va.off+ai].(IfaceV).V
			ai++
			switch verb {
			case "%s":
				parts = append(parts, strE(arg))
			case "%d":
				parts = append(parts, "(str.from_int "+intE(arg)+")")
			case "%02d":
				n := intE(arg)
				parts = append(parts, fmt.Sprintf("(ite (< %s 10) (str.++ \"0\" (str.from_int %s)) (str.from_int %s))", n, n, n))
			default:
				panic("verb " + verb)
			}
			i = j
		}
		return SymStr{"(str.++ " + strings.Join(parts, " ") + ")"}, true
	case "strings.HasPrefix":
		if a, ok := args[0].(string); ok {
			if b, ok := args[1].(string); ok {
				return strings.HasPrefix(a, b), true
			}
		}
		return SymBool{"(str.prefixof " + strE(args[1]) + " " + strE(args[0]) + ")"}, true
	case "strings.Join":
		va := args[0].(SliceV)
		if va.len == 0 {
			return "", true
		}
		parts := []string{}
		for i := 0; i < va.len; i++ {
			if i > 0 {
				parts = append(parts, strE(args[1]))
			}
			parts = append(parts, strE((*va.arr)[va.off+i]))
		}
		if len(parts) == 1 {
			return SymStr{parts[0]}, true
		}
		return SymStr{"(str.++ " + strings.Join(parts, " ") + ")"}, true
	case "strconv.Itoa":
		n := intE(args[0])
		return SymStr{fmt.Sprintf("(ite (< %s 0) (str.++ \"-\" (str.from_int (- %s))) (str.from_int %s))", n, n, n)}, true
	case "strconv.Atoi":
		// decimal integers with an optional sign; anything else (and more than 18 digits: overflow region) is an error
		s := strE(args[0])
		neg := "(str.prefixof \"-\" " + s + ")"
		signed := "(or " + neg + " (str.prefixof \"+\" " + s + "))"
		digits := fmt.Sprintf("(ite %s (str.substr %s 1 (- (str.len %s) 1)) %s)", signed, s, s, s)
		val := "(str.to_int " + digits + ")"
		okc := SymBool{fmt.Sprintf("(and (>= %s 0) (<= (str.len %s) 18))", val, digits)}
		if e.branch(okc) {
			return Tuple{SymInt{fmt.Sprintf("(ite %s (- %s) %s)", neg, val, val)}, IfaceV{}}, true
		}
		return Tuple{int64(0), e.mkErr("strconv.Atoi: invalid syntax")}, true
	case "strings.Cut":
		if a, ok := args[0].(string); ok {
			if b, ok := args[1].(string); ok {
				x, y, f := strings.Cut(a, b)
				return Tuple{x, y, f}, true
			}
		}
		s, sep := strE(args[0]), strE(args[1])
		idx := "(str.indexof " + s + " " + sep + " 0)"
		found := "(str.contains " + s + " " + sep + ")"
		before := fmt.Sprintf("(ite %s (str.substr %s 0 %s) %s)", found, s, idx, s)
		after := fmt.Sprintf("(ite %s (str.substr %s (+ %s (str.len %s)) (- (str.len %s) (+ %s (str.len %s)))) \"\")", found, s, idx, sep, s, idx, sep)
		return Tuple{SymStr{before}, SymStr{after}, SymBool{found}}, true
	case "strings.CutPrefix":
		sv, pv := strE(args[0]), strE(args[1])
		found := "(str.prefixof " + pv + " " + sv + ")"
		after := fmt.Sprintf("(ite %s (str.substr %s (str.len %s) (- (str.len %s) (str.len %s))) %s)", found, sv, pv, sv, pv, sv)
		return Tuple{SymStr{after}, SymBool{found}}, true
	case "strings.CutSuffix":
		sv, pv := strE(args[0]), strE(args[1])
		found := "(str.suffixof " + pv + " " + sv + ")"
		before := fmt.Sprintf("(ite %s (str.substr %s 0 (- (str.len %s) (str.len %s))) %s)", found, sv, sv, pv, sv)
		return Tuple{SymStr{before}, SymBool{found}}, true
	case "strings.HasSuffix":
		return SymBool{"(str.suffixof " + strE(args[1]) + " " + strE(args[0]) + ")"}, true
	case "strings.TrimSuffix":
		sv, pv := strE(args[0]), strE(args[1])
		return SymStr{fmt.Sprintf("(ite (str.suffixof %s %s) (str.substr %s 0 (- (str.len %s) (str.len %s))) %s)", pv, sv, sv, sv, pv, sv)}, true
	case "strings.Repeat":
		if a, ok := args[0].(string); ok {
			if n, ok := args[1].(int64); ok && n >= 0 && n < 1<<20 {
				return strings.Repeat(a, int(n)), true
			}
		}
		return nil, false
	case "slices.Contains[[]string string]", "slices.Contains":
		va := args[0].(SliceV)
		for i := 0; i < va.len; i++ {
			if e.branch(e.binop(tokenEQL, (*va.arr)[va.off+i], args[1], nil)) {
				return true, true
			}
		}
		return false, true
	case "strings.Contains":
		if a, ok := args[0].(string); ok {
			if b, ok := args[1].(string); ok {
				return strings.Contains(a, b), true
			}
		}
		return SymBool{"(str.contains " + strE(args[0]) + " " + strE(args[1]) + ")"}, true
	case "strings.Index":
		return SymInt{"(str.indexof " + strE(args[0]) + " " + strE(args[1]) + " 0)"}, true
	case "bytes.Equal":
		return SymBool{"(= " + bytesE(args[0]) + " " + bytesE(args[1]) + ")"}, true
	case "strings.TrimLeft", "strings.TrimRight":
		// cutset semantics, for a concrete cutset: the result is what remains after the longest prefix (suffix) made
		// of cutset characters: s = pre ++ r, pre in cutset*, r empty or not starting (ending) with a cutset character
		cut, ok := args[1].(string)
		if !ok {
			return nil, false
		}
		if sc, isC := args[0].(string); isC {
			if name == "strings.TrimLeft" {
				return strings.TrimLeft(sc, cut), true
			}
			return strings.TrimRight(sc, cut), true
		}
		if cut == "" {
			return args[0], true
		}
		var chars []string
		seen := map[byte]bool{}
		for _, c := range []byte(cut) {
			if c >= 0x80 {
				return nil, false // non-ASCII cutset: runes, not encoded
			}
			if !seen[c] {
				seen[c] = true
				chars = append(chars, smtStr(string([]byte{c})))
			}
		}
		// bounded unrolling (at most trimBound characters are stripped; more is reported as inconclusive): the result
		// is an ite-chain over the position of the first character outside the cutset
		const trimBound = 48
		sx := strE(args[0])
		at := func(i int) string {
			if name == "strings.TrimLeft" {
				return fmt.Sprintf("(str.at %s %d)", sx, i)
			}
			return fmt.Sprintf("(str.at %s (- (str.len %s) %d))", sx, sx, i+1)
		}
		inSet := func(i int) string {
			var eqs []string
			for _, c := range chars {
				eqs = append(eqs, "(= "+at(i)+" "+c+")")
			}
			if len(eqs) == 1 {
				return eqs[0]
			}
			return "(or " + strings.Join(eqs, " ") + ")"
		}
		rest := func(i int) string {
			if name == "strings.TrimLeft" {
				return fmt.Sprintf("(str.substr %s %d (- (str.len %s) %d))", sx, i, sx, i)
			}
			return fmt.Sprintf("(str.substr %s 0 (- (str.len %s) %d))", sx, sx, i)
		}
		all := make([]string, 0, trimBound)
		ex := rest(trimBound)
		for i := trimBound - 1; i >= 0; i-- {
			ex = fmt.Sprintf("(ite %s %s %s)", inSet(i), ex, rest(i))
		}
		for i := 0; i < trimBound; i++ {
			all = append(all, inSet(i))
		}
		if r := e.S.CheckWith("(and " + strings.Join(all, " ") + " " + inSet(trimBound) + ")"); r != "unsat" {
			e.inconclusive = append(e.inconclusive, fmt.Sprintf("%s may strip more than %d characters: beyond the unrolling bound", name, trimBound))
		}
		r := e.freshSym("String", "trimmed")
		e.S.Send("(assert (= " + r + " " + ex + "))")
		return SymStr{r}, true
	case "strings.TrimPrefix":
		s, p := strE(args[0]), strE(args[1])
		return SymStr{fmt.Sprintf("(ite (str.prefixof %s %s) (str.substr %s (str.len %s) (- (str.len %s) (str.len %s))) %s)", p, s, s, p, s, p, s)}, true
	case "time.Now":
		e.clockN++
		t := e.freshSym("Int", "now")
		if e.clockN > 1 {
			e.S.Send(fmt.Sprintf("(assert (<= now_%d %s))", e.lastClock, t))
		}
		e.lastClock = e.fresh
		return TimeV{t}, true
	case "(time.Time).After":
		ex := "(< " + args[1].(TimeV).E + " " + args[0].(TimeV).E + ")"
		timeCmps[ex] = timeCmp{args[1].(TimeV).E, args[0].(TimeV).E, "lt"}
		return SymBool{ex}, true
	case "(time.Time).Before":
		ex := "(< " + args[0].(TimeV).E + " " + args[1].(TimeV).E + ")"
		timeCmps[ex] = timeCmp{args[0].(TimeV).E, args[1].(TimeV).E, "lt"}
		return SymBool{ex}, true
	case "(*google.golang.org/protobuf/types/known/timestamppb.Timestamp).AsTime":
		if args[0] == nil {
			return TimeV{"0"}, true
		}
		p := args[0].(Ptr)
		return (*p.cells)[p.idx].(StructV)[0], true // harness stores a TimeV in slot 0
	}
	if fn.Pkg != nil && strings.HasSuffix(fn.Pkg.Pkg.Path(), "/zzverif/vf") {
		return e.intrinsic(fn.Name(), args), true
	}
	return nil, false
}

func (e *Engine) invoke(recv IfaceV, m *types.Func, args []any) any {
	panic("invoke " + m.FullName())
}

func (e *Engine) intrinsic(name string, args []any) any {
	if r, ok := e.intrinsic3(name, args); ok {
		return r
	}
	if r, ok := e.intrinsicDial(name, args); ok {
		return r
	}
	if r, ok := e.intrinsic2(name, args); ok {
		return r
	}
	switch name {
	case "String":
		e.bounds[fmt.Sprintf("%s: arbitrary string, len <= %d", args[0].(string), args[1].(int64))] = true
		n := e.input("String", args[0].(string))
		e.S.Send(fmt.Sprintf("(assert (<= (str.len %s) %d))", n, args[1].(int64)))
		return SymStr{n}
	case "Int":
		e.bounds[fmt.Sprintf("%s: integer in [%s, %s]", args[0].(string), intE(args[1]), intE(args[2]))] = true
		n := e.input("Int", args[0].(string))
		e.S.Send(fmt.Sprintf("(assert (and (<= %s %s) (<= %s %s)))", intE(args[1]), n, n, intE(args[2])))
		return SymInt{n}
	case "Timestamp": // returns *timestamppb.Timestamp-like pointer whose slot 0 is a TimeV
		n := e.input("Int", args[0].(string))
		cells := []any{StructV{TimeV{n}}}
		return Ptr{&cells, 0}
	case "Assume":
		e.S.Send("(assert " + boolE(args[0]) + ")")
		if e.S.Check() == "unsat" {
			panic(pathEnd{"assume-infeasible"})
		}
		return nil
	case "Assert":
		c := boolE(args[1])
		label := args[0].(string)
		e.nOblig++
		e.asserts[label]++
		r := e.S.CheckWith("(not " + c + ")")
		if r == "unsat" {
			e.nDischarged++
			return nil
		}
		if r != "sat" {
			e.inconclusive = append(e.inconclusive, "ASSERT "+label+": solver answered "+r)
			return nil
		}
		// phase 1: any model; read off the polarity of every time-comparison atom occurring in the assertion
		e.S.Send("(push)")
		e.S.Send("(assert (not " + c + "))")
		e.S.Check()
		var atoms []string
		for a := range timeCmps {
			if strings.Contains(c, a) {
				pol := strings.Contains(e.S.Eval(a), "true")
				if r := robustOf(a, pol); r != "" {
					atoms = append(atoms, r)
				}
			}
		}
		sort.Strings(atoms)
		e.modelSummary()
		slack := "none"
		e.S.Send("(pop)")
		// phase 2: the same query with slack on every time comparison of the path and of the assertion
		type try struct {
			H     string
			short bool
		}
		var tries []try
		if len(e.sleepDur) > 0 || e.pendingSleep != "" { // prefer witnesses whose vf.Sleep waits a replay can afford
			tries = append(tries, try{"3600000000000", true}, try{"1000000000", true}, try{"1000000", true})
		}
		tries = append(tries, try{"3600000000000", false}, try{"1000000000", false})
		for _, t := range tries {
			H := t.H
			e.S.Send("(push)")
			e.S.Send("(assert (not " + c + "))")
			if t.short {
				for _, d := range e.sleepDur {
					e.S.Send("(assert (<= " + d + " 400000000))")
				}
			}
			for _, r := range append(append([]string{}, e.robust...), atoms...) {
				e.S.Send("(assert " + strings.ReplaceAll(r, "@H", H) + ")")
			}
			for i := 1; i < len(e.Clock); i++ { // native clock readings are close together
				e.S.Send(fmt.Sprintf("(assert (<= (- %s %s) (+ 1000000000 %s)))", e.Clock[i], e.Clock[i-1], e.sleepOf(i)))
			}
			ok := e.S.Check() == "sat"
			if ok {
				e.modelSummary()
				slack = H + "ns"
			}
			e.S.Send("(pop)")
			if ok {
				break
			}
		}
		e.Violations = append(e.Violations, "ASSERT "+label)
		e.lastCex.What = "ASSERT " + label
		e.lastCex.Slack = slack
		if os.Getenv("V") != "" {
			fmt.Fprintln(os.Stderr, "      ASSERT", label, "violable; errors on this path:", e.trace)
		}
		e.Cex = append(e.Cex, e.lastCex)
		return nil
	case "CutLoop": // CutLoop(fn, header, checker, "name", lo, hi, ...): arbitrary integer loop state, one iteration, then checker(pre..., post...)
		lc := &loopCut{fn: args[0].(string), header: args[1].(string), check: args[2].(IfaceV).V.(Closure), ranges: map[string][2]int64{}}
		rest := args[3].(SliceV)
		for k := 0; k+2 < rest.len; k += 3 {
			name := (*rest.arr)[rest.off+k].(IfaceV).V.(string)
			lo := (*rest.arr)[rest.off+k+1].(IfaceV).V.(int64)
			hi := (*rest.arr)[rest.off+k+2].(IfaceV).V.(int64)
			lc.ranges[name] = [2]int64{lo, hi}
		}
		lc.argNames = []string{"count", "i", "post:ret"}
		e.cut = lc
		return nil
	case "AdversaryConn", "AdversaryConnMode", "AdversaryConnReset", "RogueServerConn", "RespondingServerConn":
		return IfaceV{}
	case "Quiesce":
		e.quiesce()
		return nil
	case "FreezeHeap":
		frozenAt = epochCtr
		return nil
	case "Reach":
		e.Reach[args[0].(string)]++
		e.ReachLog = append(e.ReachLog, args[0].(string))
		return nil
	case "TimeLE": // a <= b on TimeV from timestamps
		return SymBool{"(<= " + args[0].(TimeV).E + " " + args[1].(TimeV).E + ")"}
	}
	panic("intrinsic " + name)
}
