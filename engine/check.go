package main

import (
	"bufio"
	"encoding/json"
	"fmt"
	"os"
	"os/exec"
	"path/filepath"
	"regexp"
	"runtime"
	"sort"
	"strconv"
	"strings"
	"sync"
	"time"
)

// ---- known findings (committed file, never written at run time) ----

type finding struct {
	Prop, Harness, Match, Desc string
}

var findingRe = regexp.MustCompile(`^finding:\s+property=(\S+)\s+harness=(\S+)\s+match="([^"]*)"\s+(.*)$`)

func loadFindings() []finding {
	f, err := os.Open(verifDir + "/known_findings.txt")
	if err != nil {
		return nil
	}
	defer f.Close()
	var out []finding
	sc := bufio.NewScanner(f)
	for sc.Scan() {
		if m := findingRe.FindStringSubmatch(strings.TrimSpace(sc.Text())); m != nil {
			out = append(out, finding{m[1], m[2], m[3], m[4]})
		}
	}
	return out
}

func matchFinding(fs []finding, prop, harness, what string) *finding {
	for i, f := range fs {
		if f.Prop == prop && (f.Harness == "*" || f.Harness == harness) && strings.Contains(what, f.Match) {
			return &fs[i]
		}
	}
	return nil
}

// ---- the driver ----

func selfExe() string {
	p, err := os.Executable()
	if err != nil {
		return os.Args[0]
	}
	return p
}

var procSem = make(chan struct{}, procSlots())

func procSlots() int {
	if p, err := strconv.Atoi(os.Getenv("VERIF_PAR")); err == nil && p > 0 {
		return p
	}
	n := runtime.NumCPU()
	if n < 2 {
		n = 2
	}
	return n
}

// runSub runs one harness, as a single process or as 2^ShardBits processes over disjoint parts of its path tree.
func runSub(h harnessSpec, tier string, seed int64, solver string) HarnessResult {
	bits := h.ShardBits
	if tier == "thorough" && h.ShardBitsThorough > 0 {
		bits = h.ShardBitsThorough
	}
	if bits == 0 {
		return runProc(h, tier, seed, solver, 0, 0)
	}
	n := 1 << bits
	parts := make([]HarnessResult, n)
	var wg sync.WaitGroup
	for i := 0; i < n; i++ {
		wg.Add(1)
		go func(i int) { defer wg.Done(); parts[i] = runProc(h, tier, seed+int64(i), solver, bits, i) }(i)
	}
	wg.Wait()
	return mergeResults(parts)
}

func mergeResults(parts []HarnessResult) HarnessResult {
	m := parts[0]
	m.Ends, m.Reach, m.Asserts = map[string]int{}, map[string]int{}, map[string]int{}
	fs, ms, hv, bs := map[string]bool{}, map[string]bool{}, map[string]bool{}, map[string]bool{}
	m.Paths, m.Completed, m.Queries, m.Unknown, m.SolverS, m.Obligations, m.Discharged, m.UnwindFailures, m.ValidationTried, m.Validated = 0, 0, 0, 0, 0, 0, 0, 0, 0, 0
	m.Inconclusive, m.Cex, m.ValidationIssues, m.Samples, m.Error = nil, nil, nil, nil, ""
	seen := map[string]bool{}
	for _, p := range parts {
		m.Paths += p.Paths
		m.Completed += p.Completed
		m.Queries += p.Queries
		m.Unknown += p.Unknown
		m.SolverS += p.SolverS
		m.Obligations += p.Obligations
		m.Discharged += p.Discharged
		m.UnwindFailures += p.UnwindFailures
		m.ValidationTried += p.ValidationTried
		m.Validated += p.Validated
		if p.WallS > m.WallS {
			m.WallS = p.WallS
		}
		for k, v := range p.Ends {
			m.Ends[k] += v
		}
		for k, v := range p.Reach {
			m.Reach[k] += v
		}
		for k, v := range p.Asserts {
			m.Asserts[k] += v
		}
		for _, x := range p.Functions {
			fs[x] = true
		}
		for _, x := range p.Models {
			ms[x] = true
		}
		for _, x := range p.Havoc {
			hv[x] = true
		}
		for _, x := range p.Bounds {
			bs[x] = true
		}
		m.Inconclusive = append(m.Inconclusive, p.Inconclusive...)
		m.ValidationIssues = append(m.ValidationIssues, p.ValidationIssues...)
		if len(m.Samples) < 4 {
			m.Samples = append(m.Samples, p.Samples...)
		}
		for _, c := range p.Cex {
			// keep one counterexample per obligation, preferring a reproduced one
			if !seen[c.What] {
				seen[c.What] = true
				m.Cex = append(m.Cex, c)
			} else if c.Reproduced {
				for i := range m.Cex {
					if m.Cex[i].What == c.What && !m.Cex[i].Reproduced {
						m.Cex[i] = c
					}
				}
			}
		}
		if p.Error != "" && m.Error == "" {
			m.Error = p.Error
		}
	}
	m.Functions, m.Models, m.Havoc, m.Bounds = keysSorted(fs), keysSorted(ms), keysSorted(hv), keysSorted(bs)
	return m
}

func runProc(h harnessSpec, tier string, seed int64, solver string, shardBits, shard int) HarnessResult {
	procSem <- struct{}{}
	defer func() { <-procSem }()
	tmp, _ := os.CreateTemp("", "gosym-res-*.json")
	tmp.Close()
	defer os.Remove(tmp.Name())
	nval := h.Validate
	loop := h.Loop
	if loop == 0 {
		loop = 8
	}
	if tier == "thorough" {
		nval *= 4
		if h.LoopThorough > 0 {
			loop = h.LoopThorough
		}
	}
	if solver != "" {
		nval = 0
	}
	if shardBits > 0 && nval > 0 { // spread the validation budget over the shards
		nval = (nval + (1 << shardBits) - 1) >> shardBits
		if nval < 1 {
			nval = 1
		}
	}
	args := []string{"run", h.Pkg, h.Fn, "-loop", strconv.Itoa(loop), "-validate", strconv.Itoa(nval), "-seed", strconv.FormatInt(seed, 10), "-out", tmp.Name(),
		"-shardbits", strconv.Itoa(shardBits), "-shard", strconv.Itoa(shard)}
	cmd := exec.Command(selfExe(), args...)
	tl := "20000"
	if tier == "thorough" {
		tl = "120000"
	}
	cmd.Env = append(os.Environ(), "GOSYM_TLIMIT_MS="+tl, "VERIF_TIER="+tier)
	if solver != "" {
		cmd.Env = append(cmd.Env, "SOLVER="+solver)
	}
	for k, v := range h.Env {
		cmd.Env = append(cmd.Env, k+"="+v)
	}
	// per-process wall-clock budget (a shard of a harness); generous, because the machine may be shared with other
	// checks: a process that exceeds it is reported INCONCLUSIVE, and nothing it would have explored is claimed.
	// GOSYM_BUDGET_MIN overrides it.
	budget := 45 * time.Minute
	if tier == "thorough" {
		budget = 120 * time.Minute
	}
	if m, perr := strconv.Atoi(os.Getenv("GOSYM_BUDGET_MIN")); perr == nil && m > 0 {
		budget = time.Duration(m) * time.Minute
	}
	done := make(chan struct{})
	var out []byte
	var err error
	go func() { out, err = cmd.CombinedOutput(); close(done) }()
	select {
	case <-done:
	case <-time.After(budget):
		cmd.Process.Kill()
		<-done
		return HarnessResult{Pkg: h.Pkg, Harness: h.Fn, Error: "harness wall-clock budget exceeded (" + budget.String() + ")"}
	}
	var res HarnessResult
	b, rerr := os.ReadFile(tmp.Name())
	if rerr != nil || json.Unmarshal(b, &res) != nil {
		msg := string(out)
		if len(msg) > 3000 {
			msg = msg[len(msg)-3000:]
		}
		return HarnessResult{Pkg: h.Pkg, Harness: h.Fn, Error: fmt.Sprintf("harness process failed: %v: %s", err, msg)}
	}
	return res
}

func cmdCheck(argv []string) int {
	if len(argv) < 2 {
		usage()
	}
	id, tier := argv[0], argv[1]
	if t := os.Getenv("VERIF_TIER"); t == "quick" || t == "thorough" {
		tier = t
	}
	spec, ok := props[id]
	if !ok {
		fmt.Fprintln(os.Stderr, "unknown property", id)
		return 2
	}
	seed := int64(1)
	if s, err := strconv.ParseInt(os.Getenv("VERIF_SEED"), 10, 64); err == nil {
		seed = s
	}
	t0 := time.Now()
	var hs []harnessSpec
	for _, h := range spec.Harnesses {
		if h.ThoroughOnly && tier != "thorough" {
			continue
		}
		if h.QuickOnly && tier == "thorough" {
			continue
		}
		hs = append(hs, h)
	}
	results := make([]HarnessResult, len(hs))
	cross := make([]*HarnessResult, len(hs))
	var wg sync.WaitGroup
	for i := range hs {
		wg.Add(1)
		go func(i int) {
			defer wg.Done()
			results[i] = runSub(hs[i], tier, seed, "")
			if tier == "thorough" && hs[i].CrossSolver != "" {
				r := runSub(hs[i], tier, seed, hs[i].CrossSolver)
				cross[i] = &r
			}
		}(i)
	}
	wg.Wait()

	findings := loadFindings()
	os.MkdirAll(verifDir+"/evidence/replays", 0o755)
	var (
		states, transitions, validated, vtried, oblig, disch, unwind, unknown int
		solverS                                                               float64
		funcs, models, havoc, bounds                                          = map[string]bool{}, map[string]bool{}, map[string]bool{}, map[string]bool{}
		samples                                                               []any
		inconclusive, unconfirmed, known, violations, vissues, crossDis       []string
		perHarness                                                            []map[string]any
		reachAll                                                              = map[string]int{}
	)
	var notes []string
	for i, r := range results {
		h := hs[i]
		states += r.Completed
		transitions += r.Queries
		validated += r.Validated
		vtried += r.ValidationTried
		oblig += r.Obligations
		disch += r.Discharged
		unwind += r.UnwindFailures
		unknown += r.Unknown
		solverS += r.SolverS
		for _, f := range r.Functions {
			funcs[f] = true
		}
		for _, f := range r.Models {
			models[f] = true
		}
		for _, f := range r.Havoc {
			havoc[f] = true
		}
		for _, f := range r.Bounds {
			bounds[h.Fn+": "+f] = true
		}
		for k, v := range r.Reach {
			reachAll[h.Fn+"/"+k] += v
		}
		for _, s := range r.Samples {
			if len(samples) < 12 {
				samples = append(samples, h.Fn+" "+s)
			}
		}
		if r.Error != "" {
			inconclusive = append(inconclusive, h.Fn+": ENGINE ERROR: "+firstLine(r.Error))
		}
		for _, s := range r.Inconclusive {
			inconclusive = append(inconclusive, h.Fn+": "+s)
		}
		if r.UnwindFailures > 0 {
			inconclusive = append(inconclusive, fmt.Sprintf("%s: %d path(s) exceeded the loop bound %d (unwinding assertion failed: bound too small for this tree)", h.Fn, r.UnwindFailures, r.LoopBound))
		}
		for _, lbl := range h.MustReach {
			if r.Error == "" && r.Reach[lbl] == 0 {
				inconclusive = append(inconclusive, h.Fn+": vacuity witness "+strconv.Quote(lbl)+" not reached on any feasible path")
			}
		}
		for _, vi := range r.ValidationIssues {
			vissues = append(vissues, h.Fn+": "+vi)
		}
		for k, c := range r.Cex {
			desc := h.Fn + " " + c.What
			if strings.HasPrefix(c.What, "PANIC") && !h.Panics {
				notes = append(notes, fmt.Sprintf("%s: reachable %s (reproduced natively: %v) - outside this property's claim", h.Fn, c.What, c.Reproduced))
				continue
			}
			if strings.HasPrefix(c.What, "PROBE") && !c.Reproduced {
				continue // the native run passed on the probe input: no information (the INCONCLUSIVE line stands)
			}
			if !c.Reproduced {
				unconfirmed = append(unconfirmed, desc+" (solver witness did not reproduce natively: "+c.Native+")")
				continue
			}
			if f := matchFinding(findings, id, h.Fn, c.What); f != nil {
				known = append(known, fmt.Sprintf("KNOWN-FINDING: property=%s %s [%s %s]", id, f.Desc, h.Fn, c.What))
				samples = append(samples, map[string]any{"known_finding": desc, "model": c.Model})
				continue
			}
			mp := fmt.Sprintf("%s/evidence/replays/%s-%s-%d.json", verifDir, id, h.Fn, k)
			var mj map[string]any
			json.Unmarshal(modelJSONFromOut(c), &mj)
			mj["property"], mj["harness"], mj["pkg"] = id, h.Fn, h.Pkg
			b, _ := json.MarshalIndent(mj, "", " ")
			os.WriteFile(mp, b, 0o644)
			violations = append(violations, fmt.Sprintf("VIOLATION property=%s replay=%s", id, mp))
			samples = append(samples, map[string]any{"violation": desc, "model": c.Model, "native": c.Native})
		}
		ph := map[string]any{"harness": h.Fn, "pkg": h.Pkg, "paths": r.Paths, "completed_paths": r.Completed, "path_ends": r.Ends, "queries": r.Queries,
			"solver_s": round2(r.SolverS), "wall_s": round2(r.WallS), "loop_bound": r.LoopBound, "assertions": r.Asserts, "reach": r.Reach,
			"validated": fmt.Sprintf("%d/%d", r.Validated, r.ValidationTried), "solver": r.Solver}
		if cr := cross[i]; cr != nil {
			ph["cross_solver"] = map[string]any{"solver": cr.Solver, "paths": cr.Paths, "queries": cr.Queries, "solver_s": round2(cr.SolverS), "error": firstLine(cr.Error)}
			if d := diffVerdicts(r, *cr); d != "" {
				crossDis = append(crossDis, h.Fn+": "+d)
			}
		}
		perHarness = append(perHarness, ph)
	}
	for _, d := range crossDis {
		inconclusive = append(inconclusive, "cross-solver disagreement: "+d)
	}
	sort.Strings(known)
	known = uniq(known)

	if len(samples) == 0 {
		samples = append(samples, "no path completed")
	}
	ev := map[string]any{
		"property_id": id, "tier": tier, "seed": seed, "level": "model_checking",
		"coverage": map[string]any{
			"states": states, "transitions": transitions, "traces_validated_against_impl": validated, "samples": samples,
			"rule":        "states = feasible symbolic paths of the real SSA that ran to completion (each stands for every input satisfying its path condition); transitions = solver queries (branch feasibility, panic obligations, assertions); traces validated = sampled path models re-run natively with identical observable trace",
			"obligations": oblig, "discharged": disch, "unknown_queries": unknown, "unwinding_failures": unwind,
			"validation_tried": vtried, "validation_mismatches": vissues,
			"functions_encoded": keysSorted(funcs), "env_models_used": keysSorted(models), "havoc_calls": keysSorted(havoc),
			"bounds": keysSorted(bounds), "reach_labels": reachAll, "harnesses": perHarness,
			"solver_time_s": round2(solverS), "inconclusive": inconclusive, "unconfirmed_counterexamples": unconfirmed,
			"known_findings_reproduced": known, "cross_solver_disagreements": crossDis,
			"exhaustive":  false,
			"explanation": spec.Explanation,
		},
		"assumptions": spec.Assumptions,
		"wall_s":      round2(time.Since(t0).Seconds()),
		"violations":  len(violations),
	}
	b, _ := json.MarshalIndent(ev, "", " ")
	os.MkdirAll(verifDir+"/evidence", 0o755)
	os.WriteFile(filepath.Join(verifDir, "evidence", id+".json"), b, 0o644)

	fmt.Printf("%s %s: %d harnesses, %d completed paths, %d queries, obligations %d/%d discharged, validated %d/%d, solver %.1fs, wall %.1fs\n",
		id, tier, len(hs), states, transitions, disch, oblig, validated, vtried, solverS, time.Since(t0).Seconds())
	for _, s := range inconclusive {
		fmt.Println("INCONCLUSIVE:", s)
	}
	for _, s := range vissues {
		fmt.Println("VALIDATION-MISMATCH:", s)
	}
	for _, s := range notes {
		fmt.Println("NOTE:", s)
	}
	for _, s := range keysSorted(havoc) {
		fmt.Println("HAVOC:", s, "(unmodelled external callee: results unconstrained)")
	}
	for _, s := range unconfirmed {
		fmt.Println("UNCONFIRMED:", s)
	}
	for _, s := range known {
		fmt.Println(s)
	}
	for _, s := range violations {
		fmt.Println(s)
	}
	if len(violations) > 0 {
		return 1
	}
	return 0
}

func modelJSONFromOut(c CexOut) []byte {
	return modelJSON(Cex{What: c.What, Model: c.Model, Sorts: sortsOf(c.Model)})
}

// sortsOf recovers sorts from raw solver values (strings are quoted, booleans are true/false).
func sortsOf(m map[string]string) map[string]string {
	s := map[string]string{}
	for k, v := range m {
		switch {
		case strings.HasPrefix(v, "\""):
			s[k] = "String"
		case v == "true" || v == "false":
			s[k] = "Bool"
		default:
			s[k] = "Int"
		}
	}
	return s
}

func diffVerdicts(a, b HarnessResult) string {
	if b.Error != "" {
		return "cross run failed: " + firstLine(b.Error)
	}
	set := func(r HarnessResult) string {
		var w []string
		for _, c := range r.Cex {
			w = append(w, c.What)
		}
		sort.Strings(w)
		return strings.Join(uniq(w), ",")
	}
	if set(a) != set(b) {
		return fmt.Sprintf("violable obligations differ: %s=[%s] %s=[%s]", a.Solver, set(a), b.Solver, set(b))
	}
	for k := range a.Reach {
		if (b.Reach[k] == 0) != (a.Reach[k] == 0) {
			return "reach label " + k + " differs"
		}
	}
	return ""
}

func uniq(s []string) []string {
	var out []string
	for i, x := range s {
		if i == 0 || x != s[i-1] {
			out = append(out, x)
		}
	}
	return out
}

func firstLine(s string) string {
	if i := strings.IndexByte(s, '\n'); i >= 0 {
		s = s[:i]
	}
	if len(s) > 400 {
		s = s[:400]
	}
	return s
}

func round2(f float64) float64 { return float64(int64(f*100+0.5)) / 100 }

// cmdReplay re-runs a stored counterexample natively: gosym replay <ID> <model.json>
func cmdReplay(argv []string) int {
	if len(argv) < 2 {
		usage()
	}
	b, err := os.ReadFile(argv[1])
	if err != nil {
		fmt.Fprintln(os.Stderr, err)
		return 2
	}
	var m struct{ Harness, Pkg, What string }
	json.Unmarshal(b, &m)
	rp := newReplayer(m.Pkg)
	defer rp.close()
	nr := rp.run(m.Harness, b)
	fmt.Println(nr.Out)
	if reproduced(m.What, nr) {
		fmt.Printf("VIOLATION property=%s replay=%s\n", argv[0], argv[1])
		return 1
	}
	fmt.Println("not reproduced on this tree")
	return 0
}
