package main

import (
	"fmt"
	"go/types"
	"sort"
	"strings"

	"golang.org/x/tools/go/ssa"
)

// packages (besides the module itself) whose functions are executed from their real SSA
var execFromSSA = []string{
	"github.com/hashicorp/go-kms-wrapping/v2",
	"github.com/hashicorp/go-kms-wrapping/v2/aead",
}

func runsFromSSA(fn *ssa.Function) bool {
	if fn.Pkg == nil {
		// synthetic wrappers / instantiated generics: decide by the receiver's or origin's package
		return fn.Synthetic != "" && fn.Blocks != nil
	}
	p := fn.Pkg.Pkg.Path()
	if strings.HasPrefix(p, modPath) {
		return true
	}
	// generated protobuf getters of the well-known types are nil-safe field reads
	if p == "google.golang.org/protobuf/types/known/structpb" && strings.HasPrefix(fn.Name(), "Get") {
		return true
	}
	for _, a := range execFromSSA {
		if p == a {
			return true
		}
	}
	return false
}

// AeadV models a cipher.AEAD keyed with Key (a byte-string term).
type AeadV struct{ Key string }
type BlockV struct{ Key string }

// ciphertext provenance: symbol -> (key, nonce, aad, plaintext)
type aeadProv struct{ key, nonce, aad, pt string }

var sealed = map[string]aeadProv{}

func bytesE(v any) string {
	if b, ok := v.(BytesV); ok {
		if b.Obj != nil {
			return *b.Obj
		}
		if b.Nil {
			return `""`
		}
		return b.E
	}
	panic(fmt.Sprintf("bytesE %T", v))
}

func (e *Engine) stub5(fn *ssa.Function, args []any) (any, bool) {
	switch fn.String() {
	case "crypto/aes.NewCipher":
		k := args[0].(BytesV)
		okLen := SymBool{fmt.Sprintf("(or (= (str.len %s) 16) (= (str.len %s) 24) (= (str.len %s) 32))", k.E, k.E, k.E)}
		if !e.branch(okLen) {
			return Tuple{IfaceV{}, e.mkErr("crypto/aes: invalid key size")}, true
		}
		return Tuple{IfaceV{namedType("crypto/cipher", "Block"), &BlockV{k.E}}, IfaceV{}}, true
	case "crypto/cipher.NewGCM":
		b := args[0].(IfaceV).V.(*BlockV)
		return Tuple{IfaceV{namedType("crypto/cipher", "AEAD"), &AeadV{b.Key}}, IfaceV{}}, true
	}
	return nil, false
}

func (e *Engine) aeadMethod(a *AeadV, name string, args []any) any {
	switch name {
	case "Seal": // Seal(dst, nonce, plaintext, aad)
		sym := e.freshSym("String", "ct")
		pt := bytesE(args[2])
		e.S.Send(fmt.Sprintf("(assert (and (str.prefixof \"\\u{1}C\" %s) (= (str.len %s) (+ (str.len %s) 16))))", sym, sym, pt))
		sealed[sym] = aeadProv{a.Key, bytesE(args[1]), bytesE(args[3]), pt}
		return BytesV{E: sym}
	case "Open": // Open(dst, nonce, ciphertext, aad)
		ct := args[2].(BytesV)
		// which sealed value (if any) is this ciphertext? decided semantically: the expression handed in is
		// typically substr(iv ++ sealed, 12, ...), and a truncated or extended ciphertext is a different value
		if sym, ok := e.resolve(bytesE(ct), keysOf(sealed)); ok {
			pv := sealed[sym]
			cond := SymBool{fmt.Sprintf("(and (= %s %s) (= %s %s) (= %s %s))", a.Key, pv.key, bytesE(args[1]), pv.nonce, bytesE(args[3]), pv.aad)}
			if e.branch(cond) {
				return Tuple{BytesV{E: pv.pt}, IfaceV{}}
			}
		}
		return Tuple{BytesV{E: `""`, Nil: true}, e.mkErr("cipher: message authentication failed")}
	}
	panic("aead method " + name)
}

// bytesSlice implements b[lo:hi] on a symbolic byte string, with the bounds obligation.
// Capacity is unknown (>= len); the obligation is stated against len, i.e. "safe for every allocation".
func (e *Engine) bytesSlice(b BytesV, lo, hi any, pos string) any {
	ln := any(int64(0))
	if !b.Nil {
		ln = SymInt{"(str.len " + b.E + ")"}
	}
	if hi == nil {
		hi = ln
	}
	cond := fmt.Sprintf("(and (<= 0 %s) (<= %s %s) (<= %s %s))", intE(lo), intE(lo), intE(hi), intE(hi), intE(ln))
	e.oblige(cond, "PANIC slice bounds out of range at "+relPath(pos))
	return BytesV{E: fmt.Sprintf("(str.substr %s %s (- %s %s))", bytesE(b), intE(lo), intE(hi), intE(lo))}
}

type mapIter struct {
	m *MapV
	i int
}

var _ = types.Typ

// resolve finds the registered constructed value that expr denotes: syntactic hit, else a value the
// path condition forces expr to equal, else fork on possible equality. ok=false: none.
func (e *Engine) resolve(expr string, candidates []string) (string, bool) {
	for _, c := range candidates {
		if c == expr {
			return c, true
		}
	}
	for _, c := range candidates {
		if e.S.CheckWith("(not (= "+expr+" "+c+"))") == "unsat" {
			return c, true
		}
	}
	for _, c := range candidates {
		if e.branch(SymBool{"(= " + expr + " " + c + ")"}) {
			return c, true
		}
	}
	return "", false
}

func keysOf[V any](m map[string]V) []string {
	var ks []string
	for k := range m {
		ks = append(ks, k)
	}
	sort.Strings(ks)
	return ks
}

var b64Of = map[string]string{} // base64 text symbol -> raw bytes expr
