package main

import (
	"fmt"
	"strconv"
	"go/constant"
	"go/token"
	"go/types"
	"math/big"
	"os"
	"path/filepath"
	"strings"

	"golang.org/x/tools/go/ssa"
)

// ---- values ----
type SymInt struct{ E string }
type SymBool struct{ E string }
type SymStr struct{ E string }

// SymReal: floating-point values are modelled as mathematical reals (no rounding, no Inf/NaN): stated model assumption.
type SymReal struct{ E string }

func isRuneSlice(t types.Type) bool {
	sl, ok := t.Underlying().(*types.Slice)
	if !ok {
		return false
	}
	b, ok := sl.Elem().Underlying().(*types.Basic)
	return ok && b.Kind() == types.Int32
}

func isFloatType(t types.Type) bool {
	b, ok := t.Underlying().(*types.Basic)
	return ok && b.Info()&types.IsFloat != 0
}

func realLit(v constant.Value) string {
	r := constant.ToFloat(v)
	num, den := constant.Num(r), constant.Denom(r)
	if num.Kind() != constant.Int || den.Kind() != constant.Int { // not exactly representable as a ratio of integers: use float64
		f, _ := constant.Float64Val(r)
		rat := new(big.Rat)
		rat.SetFloat64(f)
		return ratLit(rat)
	}
	rat, _ := new(big.Rat).SetString(num.ExactString() + "/" + den.ExactString())
	return ratLit(rat)
}

func ratLit(r *big.Rat) string {
	n := new(big.Int).Set(r.Num())
	neg := n.Sign() < 0
	n.Abs(n)
	ex := fmt.Sprintf("(/ %s.0 %s.0)", n.String(), r.Denom().String())
	if neg {
		ex = "(- " + ex + ")"
	}
	return ex
}

func realE(v any) string {
	switch x := v.(type) {
	case SymReal:
		return x.E
	case int64:
		return "(to_real " + intE(x) + ")"
	case SymInt:
		return "(to_real " + x.E + ")"
	}
	panic(fmt.Sprintf("realE: %T", v))
}

type Ptr struct {
	cells *[]any
	idx   int
}
type StructV []any
type SliceV struct {
	arr           *[]any
	off, len, cap int
}
type IfaceV struct {
	T types.Type
	V any
}
type Tuple []any
type Closure struct {
	fn   *ssa.Function
	bind []any
}
type ErrV struct {
	msg  string
	wrap []any
}
type TimeV struct{ E string } // ns since epoch as Int expr

type MapV struct {
	keys []any
	vals []any
}

// functions whose make(..., 0, symbolicCap) capacity is never observed (result only appended to and returned)
var capUnobservable = map[string]bool{"BreakIntoNextProtos": true}

const tokenEQL = token.EQL

type pathEnd struct{ reason string }

// decision is one resolved branch on a path; fork records that both sides were feasible when it was first met.
type decision struct{ take, fork bool }

// static sharding of the path tree: the first shardBits two-sided forks are decided by the bits of shardID
var shardBits, shardID int

// ownsShortPath: a path with fewer than shardBits forks is reached by several shards; exactly one reports it.
func (e *Engine) ownsPath() bool {
	for j := e.forkCount; j < shardBits; j++ {
		if (shardID>>j)&1 == 0 {
			return false
		}
	}
	return true
}

type Engine struct {
	S            *Solver
	prefix       []decision
	decisions    []decision
	pending      [][]decision
	forkCount    int // two-sided forks seen so far on this path (static sharding of the path tree)
	fresh        int
	decls        []string
	Paths        int
	Violations   []string
	Reach        map[string]int
	loopBound    int
	trace        []string
	clockN       int
	occ          map[string]int
	Inputs       []Input
	lastCex      Cex
	robust       []string
	keyCtr       int
	pendingSleep string
	cut          *loopCut
	randSyms     []string
	sched        *Sched
	ReachLog     []string
	CertLog      []string
	lastClockSym string
	Clock        []string
	Cex          []Cex
	lastClock    int
	// evidence
	funcs, models, havoc, bounds map[string]bool
	asserts                      map[string]int
	nOblig, nDischarged          int
	inconclusive                 []string
	sleepDur                     map[int]string // clock reading index -> vf.Sleep duration preceding it
	curFn                        string
	fs                           []*fsEntry
	joins                        map[string]joinPart
	builders                     map[*any]*string
	dirs                         map[string]bool
	inHarness                    bool
	clockBudget                  string
	appendSpare                  int
	appendSpareChosen            int
	marshalMemo                  map[string]string
	dhPairs                      [][2]string
	macKeys                      []string
	dialScript                   []any
	dialNext                     int
}

// resetPath prepares the engine for one deterministic re-execution along the decision prefix.
func (e *Engine) resetPath(prefix []decision) {
	e.S = NewSolver()
	e.prefix, e.decisions, e.pending, e.fresh, e.clockN, e.occ, e.Inputs = prefix, nil, nil, 0, 0, nil, nil
	e.forkCount = 0
	e.clockBudget, e.appendSpare, e.appendSpareChosen = "", 0, -1
	e.fs, e.joins, e.builders, e.dirs = nil, map[string]joinPart{}, map[*any]*string{}, map[string]bool{}
	globals = map[*ssa.Global]Ptr{}
	allocEpoch, epochCtr, frozenAt = map[*any]int{}, 0, -1
	msgOf, tsOf = map[string]*msgProv{}, map[*any]TimeV{}
	sealed = map[string]aeadProv{}
	privIdx, certOf, byteArrays = map[string]string{}, map[string]*certProv{}, map[*any]*string{}
	e.keyCtr, e.CertLog = 0, nil
	e.trace = nil
	e.pendingSleep = ""
	e.cut = nil
	e.randSyms, e.dhPairs, e.macKeys, e.marshalMemo = nil, nil, nil, map[string]string{}
	e.dialScript, e.dialNext = nil, 0
	syncPools = map[*any][]any{}
	initDone = map[string]bool{}
	e.schedInit()
	onceDone, syncMaps, mutexes = map[*any]bool{}, map[*any]*MapV{}, map[*any]*MutexV{}
	b64Of = map[string]string{}
	x25519PubOf = map[string]string{}
	b58Of = map[string]string{}
	e.Clock, e.lastClockSym, e.robust, e.sleepDur = nil, "", nil, map[int]string{}
	timeCmps = map[string]timeCmp{}
	// finite key universes (indices 0..15) as ite-chains over literals: symbolic int->string conversion (str.from_int)
	// made cvc5 diverge, an ite-chain keeps the query in the finite-domain fragment
	chain := func(tag string, pad int) string {
		ex := fmt.Sprintf("\"\\u{1}%s%0*d\"", tag, pad, 999)
		for i := 15; i >= 0; i-- {
			ex = fmt.Sprintf("(ite (= i %d) \"\\u{1}%s%0*d\" %s)", i, tag, pad, i, ex)
		}
		return ex
	}
	e.S.Send("(define-fun pkix ((i Int)) String " + chain("P", 3) + ")")
	e.S.Send("(define-fun x25519priv ((i Int)) String " + chain("x", 30) + ")")
	e.S.Send("(define-fun pubof ((x String)) String (str.++ \"\\u{1}K\" x))(define-fun keyid ((x String)) String (str.++ \"kid:\" x))(declare-fun b64enc (String) String)(declare-fun pkixof (String) String)(declare-fun x25519pub (String) String)(declare-fun dh (String String) String)(declare-fun dhs (String String) String)(declare-fun b58enc (String) String)(declare-fun mac (String) String)")
}

func (e *Engine) sleepOf(i int) string {
	if d, ok := e.sleepDur[i]; ok {
		return d
	}
	return "0"
}

// robustPathModel asks for a model of the current path condition that survives a real clock:
// every recorded time comparison holds with slack H and consecutive readings are close together.
func (e *Engine) robustPathModel() (Cex, bool) {
	type try struct {
		H          string
		shortSleep bool
	}
	var tries []try
	for _, short := range []bool{true, false} { // prefer witnesses whose vf.Sleep waits a replay can afford
		if short && len(e.sleepDur) == 0 {
			continue
		}
		for _, H := range []string{"3600000000000", "60000000000", "1000000000", "1000000"} {
			tries = append(tries, try{H, short})
		}
	}
	for _, t := range tries {
		H := t.H
		e.S.Send("(push)")
		if t.shortSleep {
			for _, d := range e.sleepDur {
				e.S.Send("(assert (<= " + d + " 400000000))")
			}
		}
		for _, r := range e.robust {
			e.S.Send("(assert " + strings.ReplaceAll(r, "@H", H) + ")")
		}
		for i := 1; i < len(e.Clock); i++ {
			e.S.Send(fmt.Sprintf("(assert (<= (- %s %s) (+ 10000000 %s)))", e.Clock[i], e.Clock[i-1], e.sleepOf(i)))
		}
		ok := e.S.Check() == "sat"
		if ok {
			e.modelSummary()
		}
		e.S.Send("(pop)")
		if ok {
			c := e.lastCex
			c.Slack = H
			return c, true
		}
	}
	return Cex{}, false
}

// time comparisons registered by the time model, used to pick replay-robust models
type timeCmp struct{ a, b, kind string }

var timeCmps = map[string]timeCmp{}

// robustOf returns the slack-H version of constraint ce (or of its negation), "" if ce is not a time comparison.
func robustOf(ce string, positive bool) string {
	tc, ok := timeCmps[ce]
	if !ok {
		return ""
	}
	// ce means: a < b (lt), a <= b (le) or a = b (eq)
	if tc.kind == "eq" {
		if positive {
			return ce
		}
		return fmt.Sprintf("(or (<= (+ %s @H) %s) (<= (+ %s @H) %s))", tc.a, tc.b, tc.b, tc.a)
	}
	if positive {
		return fmt.Sprintf("(<= (+ %s @H) %s)", tc.a, tc.b)
	}
	return fmt.Sprintf("(<= (+ %s @H) %s)", tc.b, tc.a)
}

type Input struct{ Key, Sort, Sym string }

// input declares a harness input named label#occurrence (same numbering as the native vf package).
func (e *Engine) input(sort, label string) string {
	if e.occ == nil {
		e.occ = map[string]int{}
	}
	e.occ[label]++
	key := fmt.Sprintf("%s#%d", label, e.occ[label])
	sym := "|" + key + "|"
	e.S.Send(fmt.Sprintf("(declare-const %s %s)", sym, sort))
	e.Inputs = append(e.Inputs, Input{key, sort, sym})
	return sym
}

func (e *Engine) freshSym(sort, hint string) string {
	e.fresh++
	n := fmt.Sprintf("%s_%d", hint, e.fresh)
	e.S.Send(fmt.Sprintf("(declare-const %s %s)", n, sort))
	return n
}

func smtStr(s string) string {
	var sb strings.Builder
	sb.WriteByte('"')
	for _, c := range []byte(s) {
		switch {
		case c == '"':
			sb.WriteString(`""`)
		case c >= 32 && c < 127 && c != '\\':
			sb.WriteByte(c)
		default:
			fmt.Fprintf(&sb, `\u{%x}`, c)
		}
	}
	sb.WriteByte('"')
	return sb.String()
}

func intE(v any) string {
	switch x := v.(type) {
	case int64:
		if x < 0 {
			return fmt.Sprintf("(- %d)", -x)
		}
		return fmt.Sprintf("%d", x)
	case SymInt:
		return x.E
	}
	panic(fmt.Sprintf("intE: %T", v))
}
func strE(v any) string {
	switch x := v.(type) {
	case string:
		return smtStr(x)
	case SymStr:
		return x.E
	}
	panic(fmt.Sprintf("strE: %T", v))
}
func boolE(v any) string {
	switch x := v.(type) {
	case bool:
		if x {
			return "true"
		}
		return "false"
	case SymBool:
		return x.E
	}
	panic(fmt.Sprintf("boolE: %T", v))
}
func isSym(v any) bool {
	switch v.(type) {
	case SymInt, SymBool, SymStr, SymReal:
		return true
	}
	return false
}

// branch decides a possibly symbolic condition with forking by re-execution.
func (e *Engine) branch(c any) bool {
	if b, ok := c.(bool); ok {
		return b
	}
	ce := boolE(c)
	k := len(e.decisions)
	var take, fork bool
	if k < len(e.prefix) {
		take, fork = e.prefix[k].take, e.prefix[k].fork
	} else {
		t := e.S.CheckWith(ce) != "unsat"
		f := e.S.CheckWith("(not "+ce+")") != "unsat"
		switch {
		case t && f:
			fork = true
			if e.forkCount < shardBits {
				take = (shardID>>e.forkCount)&1 == 1 // the other side belongs to another shard
			} else {
				alt := append(append([]decision{}, e.decisions...), decision{false, true})
				e.pending = append(e.pending, alt)
				take = true
			}
			if traceForks {
				c := ce
				if len(c) > 160 {
					c = c[:160] + "..."
				}
				fmt.Fprintf(os.Stderr, "FORK depth=%d in %s: %s\n", k, e.curFn, c)
			}
		case t:
			take = true
		case f:
			take = false
		default:
			panic(pathEnd{"infeasible"})
		}
	}
	if fork {
		e.forkCount++
	}
	e.decisions = append(e.decisions, decision{take, fork})
	if r := robustOf(ce, take); r != "" {
		e.robust = append(e.robust, r)
	}
	if take {
		e.S.Send("(assert " + ce + ")")
	} else {
		e.S.Send("(assert (not " + ce + "))")
	}
	return take
}

// panicObligation: the current path (which is feasible) runs into an implicit panic.
func (e *Engine) panicObligation(what string) {
	e.nOblig++
	if e.S.Check() == "sat" {
		e.modelSummary()
		e.lastCex.What = what
		e.Cex = append(e.Cex, e.lastCex)
	}
	panic(pathEnd{what})
}

// obligation: cond must hold on all inputs reaching here; if violable, record and continue assuming it holds.
func (e *Engine) oblige(cond string, what string) {
	e.nOblig++
	r := e.S.CheckWith("(not " + cond + ")")
	if r == "unsat" {
		e.nDischarged++
	} else if r != "sat" {
		e.inconclusive = append(e.inconclusive, what+": solver answered "+r)
	}
	if r == "sat" {
		e.S.Send("(push)")
		e.S.Send("(assert (not " + cond + "))")
		e.S.Check()
		m := e.modelSummary()
		e.S.Send("(pop)")
		e.Violations = append(e.Violations, what+" :: "+m)
		e.lastCex.What = what
		e.Cex = append(e.Cex, e.lastCex)
	}
	e.S.Send("(assert " + cond + ")")
	if e.S.Check() == "unsat" {
		panic(pathEnd{"obligation always fails: " + what})
	}
}

// probe records a solver witness for an input that leaves the encodable fragment on this path (e.g. non-ASCII
// content at a rune conversion). The engine cannot follow the code there; the witness is replayed against the native
// build instead, and only a natively failing run is reported (a native pass proves nothing and is not counted).
func (e *Engine) probe(what string) {
	if e.S.Check() != "sat" {
		return
	}
	e.modelSummary()
	e.lastCex.What = "PROBE " + what
	e.Cex = append(e.Cex, e.lastCex)
}

type Cex struct {
	Slack string
	What  string
	Model map[string]string // input key -> raw solver value
	Sorts map[string]string
}

func (e *Engine) modelSummary() string {
	c := Cex{Model: map[string]string{}, Sorts: map[string]string{}}
	var parts []string
	for _, in := range e.Inputs {
		raw := e.S.Eval(in.Sym)
		// raw looks like ((|k| value))
		v := strings.TrimSpace(raw)
		v = strings.TrimPrefix(v, "((")
		v = strings.TrimSuffix(v, "))")
		v = strings.TrimSpace(strings.TrimPrefix(v, in.Sym))
		c.Model[in.Key] = v
		c.Sorts[in.Key] = in.Sort
		parts = append(parts, in.Key+"="+v)
	}
	e.lastCex = c
	return strings.Join(parts, " ")
}

var traceForks = os.Getenv("GOSYM_TRACE") != ""

func relPath(p string) string {
	if strings.HasPrefix(p, repoDir+"/") {
		return strings.TrimPrefix(p, repoDir+"/")
	}
	if i := strings.Index(p, "/pkg/mod/"); i >= 0 {
		return p[i+len("/pkg/mod/"):]
	}
	return p
}

// isHarnessFn: functions that come from the overlaid harness files (zz_verif_*.go) or the vf package.
func isHarnessFn(fn *ssa.Function) bool {
	f := fn
	for f.Parent() != nil {
		f = f.Parent()
	}
	pos := fn.Prog.Fset.Position(f.Pos())
	return strings.Contains(filepath.Base(pos.Filename), "zz_verif_") || strings.Contains(pos.Filename, "/zzverif/")
}

// havocCall is the policy for a callee that is neither executed from SSA nor modelled: its results are
// fresh unconstrained values of their types and it has no side effects. Every such call is listed in the
// evidence (havoc_calls); result types the engine cannot make arbitrary abort the run as unsupported.
func (e *Engine) havocCall(fn *ssa.Function, args []any) any {
	e.havoc[fn.String()] = true
	res := fn.Signature.Results()
	mk := func(t types.Type) any {
		switch u := t.Underlying().(type) {
		case *types.Basic:
			switch {
			case u.Info()&types.IsBoolean != 0:
				return SymBool{e.freshSym("Bool", "havoc")}
			case u.Info()&types.IsInteger != 0:
				return SymInt{e.freshSym("Int", "havoc")}
			case u.Info()&types.IsString != 0:
				return SymStr{e.freshSym("String", "havoc")}
			}
		case *types.Slice:
			if isByteSlice(t) {
				return BytesV{E: e.freshSym("String", "havoc")}
			}
		case *types.Interface:
			if t.String() == "error" {
				if e.branch(SymBool{e.freshSym("Bool", "havocerr")}) {
					return e.mkErr("havoc error from " + fn.String())
				}
				return IfaceV{}
			}
		}
		panic("no model for external callee: " + fn.String() + " (result type " + t.String() + " cannot be havocked)")
	}
	switch res.Len() {
	case 0:
		return nil
	case 1:
		return mk(res.At(0).Type())
	}
	t := make(Tuple, res.Len())
	for i := range t {
		t[i] = mk(res.At(i).Type())
	}
	return t
}

// ---- write-set isolation: objects allocated before Freeze are "pre-existing" ----
var (
	allocEpoch = map[*any]int{}
	epochCtr   int
	frozenAt   = -1
)

func noteAlloc(cells []any) {
	epochCtr++
	if len(cells) > 0 {
		allocEpoch[&cells[0]] = epochCtr
	}
}

func (e *Engine) checkWrite(cells []any, idx int, pos string) {
	if frozenAt < 0 || len(cells) == 0 || e.inHarness {
		return // writes made by harness code (the Storage implementation, the scripted listener) are the environment's
	}
	if ep, ok := allocEpoch[&cells[0]]; ok && ep <= frozenAt {
		e.Violations = append(e.Violations, "WRITE to pre-existing memory at "+pos)
		e.S.Check()
		e.modelSummary()
		e.lastCex.What = "WRITE to pre-existing memory at " + pos
		e.Cex = append(e.Cex, e.lastCex)
	}
}

var byteArrays = map[*any]*string{}

type loopCut struct {
	fn, header string
	ranges     map[string][2]int64
	argNames   []string
	check      Closure
	vals       map[string]any
}

type frame struct {
	fn     *ssa.Function
	env    map[ssa.Value]any
	defers []func()
}

func zero(t types.Type) any {
	switch u := t.Underlying().(type) {
	case *types.Basic:
		switch {
		case u.Info()&types.IsBoolean != 0:
			return false
		case u.Info()&types.IsInteger != 0:
			return int64(0)
		case u.Info()&types.IsFloat != 0:
			return SymReal{"0.0"}
		case u.Info()&types.IsString != 0:
			return ""
		}
	case *types.Struct:
		if t.String() == "time.Time" {
			return TimeV{"(- 62135596800000000000)"}
		}
		s := make(StructV, u.NumFields())
		for i := range s {
			s[i] = zero(u.Field(i).Type())
		}
		return s
	case *types.Pointer, *types.Signature, *types.Map, *types.Chan:
		return nil
	case *types.Slice:
		if isByteSlice(t) {
			return BytesV{E: `""`, Nil: true}
		}
		return SliceV{}
	case *types.Interface:
		return IfaceV{}
	case *types.Array:
		s := make(StructV, u.Len())
		for i := range s {
			s[i] = zero(u.Elem())
		}
		return s
	}
	return nil
}

func copyVal(v any) any {
	if s, ok := v.(StructV); ok {
		c := make(StructV, len(s))
		for i := range s {
			c[i] = copyVal(s[i])
		}
		return c
	}
	return v
}

func (e *Engine) constVal(c *ssa.Const) any {
	if c.Value == nil {
		return zero(c.Type())
	}
	if isFloatType(c.Type()) {
		return SymReal{realLit(c.Value)}
	}
	switch c.Value.Kind() {
	case constant.Bool:
		return constant.BoolVal(c.Value)
	case constant.Int:
		i, _ := constant.Int64Val(c.Value)
		return i
	case constant.String:
		return constant.StringVal(c.Value)
	}
	panic("const kind " + c.Value.String())
}

func (e *Engine) get(f *frame, v ssa.Value) any {
	switch x := v.(type) {
	case *ssa.Const:
		return e.constVal(x)
	case *ssa.Function:
		return Closure{fn: x}
	case *ssa.Global:
		return e.global(x)
	case *ssa.Builtin:
		return x
	}
	r, ok := f.env[v]
	if !ok {
		panic(fmt.Sprintf("unbound %s in %s", v.Name(), f.fn.Name()))
	}
	return r
}

var globals = map[*ssa.Global]Ptr{}

func (e *Engine) global(g *ssa.Global) Ptr {
	if p, ok := globals[g]; ok {
		return p
	}
	cells := []any{zero(g.Type().(*types.Pointer).Elem())}
	if g.Pkg != nil && g.Pkg.Pkg.Path() == "crypto/rand" && g.Name() == "Reader" {
		cells[0] = IfaceV{namedType("io", "Reader"), &RandV{}}
	}
	if g.Pkg != nil && !strings.HasPrefix(g.Pkg.Pkg.Path(), modPath) && types.Identical(g.Type().(*types.Pointer).Elem(), types.Universe.Lookup("error").Type()) {
		// sentinel errors of dependencies (context.Canceled, net.ErrClosed, io.EOF, ...): their packages' init
		// functions are not executed, so give each a distinct error object
		cells[0] = IfaceV{types.Universe.Lookup("error").Type(), &ErrV{msg: g.String()}}
	}
	p := Ptr{&cells, 0}
	globals[g] = p
	return p
}

func (e *Engine) call(fn *ssa.Function, args []any, bind []any) any {
	for _, st := range [](func(*ssa.Function, []any) (any, bool)){e.stubDial, e.stubOS, e.stub9, e.stub8, e.stub7, e.stub6, e.stub5, e.stub4, e.stub3, e.stub2, e.stub} {
		if r, ok := st(fn, args); ok {
			if fn.Name() != "init" && !(fn.Pkg != nil && strings.HasSuffix(fn.Pkg.Pkg.Path(), "/zzverif/vf")) {
				e.models[fn.String()] = true
			}
			return r
		}
	}
	if fn.Blocks == nil && fn.Pkg != nil {
		fn.Pkg.Build()
	}
	if fn.Blocks == nil || !runsFromSSA(fn) {
		return e.havocCall(fn, args)
	}
	if !isHarnessFn(fn) {
		pos := fn.Prog.Fset.Position(fn.Pos())
		e.funcs[fmt.Sprintf("%s (%s:%d)", fn.String(), relPath(pos.Filename), pos.Line)] = true
	}
	saved, savedH := e.curFn, e.inHarness
	e.curFn, e.inHarness = fn.Name(), isHarnessFn(fn)
	defer func() { e.curFn, e.inHarness = saved, savedH }()
	f := &frame{fn: fn, env: map[ssa.Value]any{}}
	for i, p := range fn.Params {
		f.env[p] = args[i]
	}
	for i, fv := range fn.FreeVars {
		f.env[fv] = bind[i]
	}
	blk := fn.Blocks[0]
	var prev *ssa.BasicBlock
	visits := map[*ssa.BasicBlock]int{}
	for {
		visits[blk]++
		if visits[blk] > e.loopBound {
			panic(pathEnd{"UNWIND " + fn.Name()})
		}
		// phis first (parallel)
		var phiVals []any
		var phis []*ssa.Phi
		for _, in := range blk.Instrs {
			ph, ok := in.(*ssa.Phi)
			if !ok {
				break
			}
			for i, p := range blk.Preds {
				if p == prev {
					phiVals = append(phiVals, e.get(f, ph.Edges[i]))
					phis = append(phis, ph)
					break
				}
			}
		}
		for i, ph := range phis {
			f.env[ph] = phiVals[i]
		}
		if e.cut != nil && e.cut.fn == fn.Name() && blk.Comment == e.cut.header {
			switch visits[blk] {
			case 1: // first arrival: replace the integer loop state by an arbitrary one (under the stated ranges)
				e.cut.vals = map[string]any{}
				for _, in := range blk.Instrs {
					ph, ok := in.(*ssa.Phi)
					if !ok {
						break
					}
					if r, ok := e.cut.ranges[ph.Comment]; ok {
						sym := e.input("Int", "loop-"+ph.Comment)
						e.S.Send(fmt.Sprintf("(assert (and (<= %d %s) (<= %s %d)))", r[0], sym, sym, r[1]))
						f.env[ph] = SymInt{sym}
					}
					e.cut.vals[ph.Comment] = f.env[ph]
				}
				for name := range e.cut.ranges {
					if _, ok := e.cut.vals[name]; !ok {
						e.inconclusive = append(e.inconclusive, "loop cut of "+e.cut.fn+": the loop no longer carries a variable named "+strconv.Quote(name)+" (the lemma harness is tied to the loop's shape and must be adapted)")
						panic(pathEnd{"UNSUPPORTED loop cut does not match the loop"})
					}
				}
			case 2: // back at the header after exactly one iteration: hand pre- and post-state to the harness checker
				post := map[string]any{}
				for _, in := range blk.Instrs {
					if ph, ok := in.(*ssa.Phi); ok {
						post[ph.Comment] = f.env[ph]
					}
				}
				args := make([]any, 0, len(e.cut.argNames))
				for _, n := range e.cut.argNames {
					if strings.HasPrefix(n, "post:") {
						args = append(args, post[strings.TrimPrefix(n, "post:")])
					} else {
						args = append(args, e.cut.vals[n])
					}
				}
				cl := e.cut.check
				e.cut = nil
				e.call(cl.fn, args, cl.bind)
				panic(pathEnd{"loop-cut-checked"})
			}
		}
		var next *ssa.BasicBlock
		for _, in := range blk.Instrs {
			switch x := in.(type) {
			case *ssa.Phi:
			case *ssa.If:
				if e.branch(e.get(f, x.Cond)) {
					next = blk.Succs[0]
				} else {
					next = blk.Succs[1]
				}
			case *ssa.Jump:
				next = blk.Succs[0]
			case *ssa.Return:
				for i := len(f.defers) - 1; i >= 0; i-- {
					f.defers[i]()
				}
				switch len(x.Results) {
				case 0:
					return nil
				case 1:
					return e.get(f, x.Results[0])
				default:
					t := make(Tuple, len(x.Results))
					for i, r := range x.Results {
						t[i] = e.get(f, r)
					}
					return t
				}
			case *ssa.Panic:
				if isHarnessFn(f.fn) { // harness set-up failure: the path is not part of the claim, but it is counted
					panic(pathEnd{fmt.Sprintf("HARNESS PANIC in %s; errors so far: %v", f.fn.Name(), e.trace)})
				}
				e.panicObligation("PANIC explicit panic in " + f.fn.String())
			case *ssa.Go:
				cc := x.Common()
				args := make([]any, len(cc.Args))
				for k, a := range cc.Args {
					args[k] = e.get(f, a)
				}
				switch fv := cc.Value.(type) {
				case *ssa.Function:
					e.spawn(func() { e.call(fv, args, nil) })
				default:
					cl := e.get(f, cc.Value).(Closure)
					e.spawn(func() { e.call(cl.fn, args, cl.bind) })
				}
			case *ssa.Defer:
				cc := x.Common()
				ff := f
				args := make([]any, len(cc.Args))
				for k, a := range cc.Args {
					args[k] = e.get(f, a)
				}
				if cc.IsInvoke() {
					recv := e.get(f, cc.Value).(IfaceV)
					f.defers = append(f.defers, func() { e.invokeMethod(recv, cc.Method, args) })
				} else {
					callee := cc.Value
					var cv any
					if _, isFn := callee.(*ssa.Function); !isFn {
						cv = e.get(f, callee)
					}
					f.defers = append(f.defers, func() {
						_ = ff
						if fn, ok := callee.(*ssa.Function); ok {
							e.call(fn, args, nil)
						} else if cl, ok := cv.(Closure); ok {
							e.call(cl.fn, args, cl.bind)
						} else if nf, ok := cv.(NativeFn); ok {
							nf(e, args)
						}
					})
				}
			case *ssa.RunDefers:
				for k := len(f.defers) - 1; k >= 0; k-- {
					f.defers[k]()
				}
				f.defers = nil
			case *ssa.Send:
				e.chanSend(e.get(f, x.Chan).(*ChanV), e.get(f, x.X))
			case *ssa.MapUpdate:
				m := e.get(f, x.Map).(*MapV)
				k, v := e.get(f, x.Key), e.get(f, x.Value)
				done := false
				for j, mk := range m.keys {
					if !done && e.branch(e.binop(token.EQL, mk, k, nil)) {
						m.vals[j], done = v, true
					}
				}
				if !done {
					m.keys, m.vals = append(m.keys, k), append(m.vals, v)
				}
			case *ssa.Store:
				p := e.get(f, x.Addr).(Ptr)
				e.checkWrite(*p.cells, p.idx, f.fn.Prog.Fset.Position(x.Pos()).String())
				(*p.cells)[p.idx] = copyVal(e.get(f, x.Val))
			case ssa.Value:
				f.env[x] = e.eval(f, x)
			default:
				panic(fmt.Sprintf("instr %T", in))
			}
		}
		prev, blk = blk, next
	}
}

func (e *Engine) eval(f *frame, v ssa.Value) any {
	switch x := v.(type) {
	case *ssa.Alloc:
		cells := []any{zero(x.Type().(*types.Pointer).Elem())}
		noteAlloc(cells)
		if sv, ok := cells[0].(StructV); ok {
			noteAlloc(sv)
		}
		return Ptr{&cells, 0}
	case *ssa.FieldAddr:
		p := e.get(f, x.X)
		if p == nil {
			e.panicObligation("PANIC nil dereference at " + relPath(f.fn.Prog.Fset.Position(x.Pos()).String()))
		}
		pp := p.(Ptr)
		s := (*pp.cells)[pp.idx].(StructV)
		// pointer into struct storage: share backing by slicing
		cells := []any(s)
		return Ptr{&cells, x.Field}
	case *ssa.Field:
		return e.get(f, x.X).(StructV)[x.Field]
	case *ssa.IndexAddr:
		base := e.get(f, x.X)
		idx := e.get(f, x.Index)
		switch b := base.(type) {
		case SliceV:
			i := e.concretizeIndex(idx, b.len, f, x.Pos())
			return Ptr{b.arr, b.off + i}
		case Ptr: // pointer to array
			arr := (*b.cells)[b.idx].(StructV)
			cells := []any(arr)
			i := e.concretizeIndex(idx, len(arr), f, x.Pos())
			return Ptr{&cells, i}
		}
		panic(fmt.Sprintf("IndexAddr on %T", base))
	case *ssa.UnOp:
		a := e.get(f, x.X)
		switch x.Op {
		case token.ARROW:
			v, ok := e.chanRecv(a.(*ChanV))
			if x.CommaOk {
				return Tuple{v, ok}
			}
			return v
		case token.MUL:
			if a == nil {
				e.panicObligation("PANIC nil dereference at " + relPath(f.fn.Prog.Fset.Position(x.Pos()).String()))
			}
			p := a.(Ptr)
			return copyVal((*p.cells)[p.idx])
		case token.NOT:
			if b, ok := a.(bool); ok {
				return !b
			}
			return SymBool{"(not " + boolE(a) + ")"}
		case token.SUB:
			if r, ok := a.(SymReal); ok {
				return SymReal{"(- " + r.E + ")"}
			}
			if i, ok := a.(int64); ok {
				return -i
			}
			return SymInt{"(- " + intE(a) + ")"}
		}
	case *ssa.BinOp:
		return e.binop(x.Op, e.get(f, x.X), e.get(f, x.Y), x)
	case *ssa.Call:
		return e.doCall(f, x.Common())
	case *ssa.Index:
		base, idx := e.get(f, x.X), e.get(f, x.Index)
		switch b := base.(type) {
		case string, SymStr: // s[i] on a string: a byte, with the bounds obligation
			if bs, ok := b.(string); ok {
				if i, ok := idx.(int64); ok {
					if i < 0 || int(i) >= len(bs) {
						e.panicObligation("PANIC index out of range at " + relPath(f.fn.Prog.Fset.Position(x.Pos()).String()))
					}
					return int64(bs[i])
				}
			}
			se, ie := strE(b), intE(idx)
			e.oblige(fmt.Sprintf("(and (<= 0 %s) (< %s (str.len %s)))", ie, ie, se), "PANIC index out of range at "+relPath(f.fn.Prog.Fset.Position(x.Pos()).String()))
			return SymInt{"(str.to_code (str.at " + se + " " + ie + "))"}
		case StructV: // array value
			i := e.concretizeIndex(idx, len(b), f, x.Pos())
			return b[i]
		}
		panic(fmt.Sprintf("Index on %T", base))
	case *ssa.Extract:
		return e.get(f, x.Tuple).(Tuple)[x.Index]
	case *ssa.MakeInterface:
		return IfaceV{x.X.Type(), e.get(f, x.X)}
	case *ssa.ChangeInterface:
		return e.get(f, x.X)
	case *ssa.ChangeType:
		return e.get(f, x.X)
	case *ssa.Convert:
		v := e.get(f, x.X)
		if isFloatType(x.Type()) {
			return SymReal{realE(v)}
		}
		if r, ok := v.(SymReal); ok { // float -> integer: truncation toward zero
			return SymInt{fmt.Sprintf("(ite (>= %s 0.0) (to_int %s) (- (to_int (- %s))))", r.E, r.E, r.E)}
		}
		if isByteSlice(x.Type()) {
			switch sv := v.(type) {
			case string, SymStr:
				return BytesV{E: strE(sv)}
			}
		}
		if isRuneSlice(x.Type()) || isRuneSlice(x.X.Type()) {
			// strings are byte sequences in this engine; rune conversions coincide with that only on ASCII content.
			// The ASCII case continues (bytes and runes are the same there); the other case is outside the encoding.
			var ex string
			switch sv := v.(type) {
			case string, SymStr:
				ex = strE(sv)
			case BytesV:
				ex = bytesE(sv)
			}
			if ex != "" {
				ascii := SymBool{"(str.in_re " + ex + " (re.* (re.range \"\\u{0}\" \"\\u{7f}\")))"}
				if !e.branch(ascii) {
					e.inconclusive = append(e.inconclusive, "rune conversion of non-ASCII content at "+relPath(f.fn.Prog.Fset.Position(x.Pos()).String())+": UTF-8 decoding is not encoded")
					e.probe("non-ASCII content at the rune conversion in " + relPath(f.fn.Prog.Fset.Position(x.Pos()).String()))
					panic(pathEnd{"UNSUPPORTED non-ASCII rune conversion"})
				}
			}
			return v
		}
		if bt, ok := x.Type().Underlying().(*types.Basic); ok && bt.Info()&types.IsString != 0 {
			if bv, ok := v.(BytesV); ok {
				return SymStr{bytesE(bv)}
			}
			switch iv := v.(type) {
			case int64, SymInt: // string(rune): encoded for ASCII code points only
				code := intE(iv)
				if !e.branch(SymBool{fmt.Sprintf("(and (<= 0 %s) (<= %s 127))", code, code)}) {
					e.inconclusive = append(e.inconclusive, "string(rune) of a non-ASCII code point: UTF-8 encoding is not encoded")
					panic(pathEnd{"UNSUPPORTED string(rune) outside ASCII"})
				}
				return SymStr{"(str.from_code " + code + ")"}
			}
		}
		return v
	case *ssa.MakeClosure:
		b := make([]any, len(x.Bindings))
		for i, bv := range x.Bindings {
			b[i] = e.get(f, bv)
		}
		return Closure{x.Fn.(*ssa.Function), b}
	case *ssa.Range:
		switch xv := e.get(f, x.X).(type) {
		case *MapV:
			return &mapIter{m: xv}
		case nil:
			return &mapIter{}
		case string, SymStr:
			// range over a string decodes UTF-8: encoded for ASCII content only (bytes and runes coincide there)
			ex := strE(xv)
			if !e.branch(SymBool{"(str.in_re " + ex + " (re.* (re.range \"\\u{0}\" \"\\u{7f}\")))"}) {
				e.inconclusive = append(e.inconclusive, "range over non-ASCII string at "+relPath(f.fn.Prog.Fset.Position(x.Pos()).String())+": UTF-8 decoding is not encoded")
				e.probe("non-ASCII content at the range over a string in " + relPath(f.fn.Prog.Fset.Position(x.Pos()).String()))
				panic(pathEnd{"UNSUPPORTED range over non-ASCII string"})
			}
			n := e.concretize(SymInt{"(str.len " + ex + ")"})
			m := &MapV{}
			for i := int64(0); i < n; i++ {
				m.keys = append(m.keys, i)
				m.vals = append(m.vals, SymInt{fmt.Sprintf("(str.to_code (str.at %s %d))", ex, i)})
			}
			return &mapIter{m: m}
		}
		panic(fmt.Sprintf("range over %T is not supported", e.get(f, x.X)))
	case *ssa.Next:
		it := e.get(f, x.Iter).(*mapIter)
		if it.m == nil || it.i >= len(it.m.keys) {
			return Tuple{false, nil, nil}
		}
		it.i++
		return Tuple{true, it.m.keys[it.i-1], it.m.vals[it.i-1]}
	case *ssa.MakeChan:
		return &ChanV{elem: x.Type().Underlying().(*types.Chan).Elem()}
	case *ssa.Select:
		return e.selectOp(f, x)
	case *ssa.MakeMap:
		return &MapV{}
	case *ssa.Lookup:
		m := e.get(f, x.X).(*MapV)
		k := e.get(f, x.Index)
		var r any = zero(x.X.Type().Underlying().(*types.Map).Elem())
		found := false
		if m != nil {
			for j, mk := range m.keys {
				if !found && e.branch(e.binop(token.EQL, mk, k, nil)) {
					r, found = m.vals[j], true
				}
			}
		}
		if x.CommaOk {
			return Tuple{r, found}
		}
		return r
	case *ssa.MakeSlice:
		if isByteSlice(x.Type()) {
			n := e.concretize(e.get(f, x.Len))
			z := smtStr(strings.Repeat("\x00", int(n)))
			return BytesV{Obj: &z}
		}
		n := e.concretize(e.get(f, x.Len))
		c := n
		if _, isAppendHint := e.get(f, x.Cap).(int64); isAppendHint || !capUnobservable[f.fn.Name()] {
			c = e.concretize(e.get(f, x.Cap))
		}
		arr := make([]any, c)
		el := x.Type().Underlying().(*types.Slice).Elem()
		for i := range arr {
			arr[i] = zero(el)
		}
		noteAlloc(arr)
		return SliceV{&arr, 0, int(n), int(c)}
	case *ssa.Slice:
		return e.sliceOp(f, x)
	case *ssa.TypeAssert:
		iv := e.get(f, x.X).(IfaceV)
		ok := iv.T != nil && types.Identical(iv.T, x.AssertedType)
		if it, isI := x.AssertedType.Underlying().(*types.Interface); isI && iv.T != nil {
			ok = types.Implements(iv.T, it)
			if x.CommaOk {
				if ok {
					return Tuple{iv, true}
				}
				return Tuple{IfaceV{}, false}
			}
			if !ok {
				e.panicObligation("PANIC failed type assertion at " + relPath(f.fn.Prog.Fset.Position(x.Pos()).String()))
			}
			return iv
		}
		if x.CommaOk {
			if ok {
				return Tuple{iv.V, true}
			}
			return Tuple{zero(x.AssertedType), false}
		}
		if !ok {
			e.panicObligation("PANIC failed type assertion at " + relPath(f.fn.Prog.Fset.Position(x.Pos()).String()))
		}
		return iv.V
	}
	panic(fmt.Sprintf("eval %T %s", v, v))
}

// concretize turns a symbolic int into a concrete one by forking over its feasible values (ascending, <= 64).
func (e *Engine) concretize(v any) int64 {
	if i, ok := v.(int64); ok {
		return i
	}
	ex := intE(v)
	for k := int64(0); k <= 64; k++ {
		if e.branch(SymBool{fmt.Sprintf("(= %s %d)", ex, k)}) {
			return k
		}
	}
	panic(pathEnd{"CONCRETIZE out of range"})
}

func (e *Engine) concretizeIndex(idx any, n int, f *frame, pos token.Pos) int {
	if i, ok := idx.(int64); ok {
		if i < 0 || int(i) >= n {
			e.panicObligation("PANIC index out of range at " + relPath(f.fn.Prog.Fset.Position(pos).String()))
		}
		return int(i)
	}
	i := e.concretize(idx)
	if i < 0 || int(i) >= n {
		e.panicObligation("PANIC index out of range at " + relPath(f.fn.Prog.Fset.Position(pos).String()))
	}
	return int(i)
}

func (e *Engine) sliceOp(f *frame, x *ssa.Slice) any {
	base := e.get(f, x.X)
	var lo, hi any = int64(0), nil
	if x.Low != nil {
		lo = e.get(f, x.Low)
	}
	if x.High != nil {
		hi = e.get(f, x.High)
	}
	switch b := base.(type) {
	case string, SymStr:
		ln := e.strlen(b)
		if hi == nil {
			hi = ln
		}
		pos := f.fn.Prog.Fset.Position(x.Pos()).String()
		cond := fmt.Sprintf("(and (<= 0 %s) (<= %s %s) (<= %s %s))", intE(lo), intE(lo), intE(hi), intE(hi), intE(ln))
		if !isSym(lo) && !isSym(hi) && !isSym(ln) {
			l, h, n := lo.(int64), hi.(int64), ln.(int64)
			if l < 0 || l > h || h > n {
				panic(pathEnd{"SLICE OOB"})
			}
			return b.(string)[l:h]
		}
		e.oblige(cond, "PANIC slice bounds out of range at "+relPath(pos))
		return SymStr{fmt.Sprintf("(str.substr %s %s (- %s %s))", strE(b), intE(lo), intE(hi), intE(lo))}
	case BytesV:
		return e.bytesSlice(b, lo, hi, f.fn.Prog.Fset.Position(x.Pos()).String())
	case Ptr: // slice of *array
		arr := (*b.cells)[b.idx].(StructV)
		if at, ok := x.X.Type().Underlying().(*types.Pointer).Elem().Underlying().(*types.Array); ok {
			if bt, ok := at.Elem().Underlying().(*types.Basic); ok && bt.Kind() == types.Uint8 && (lo == int64(0)) && (hi == nil || hi == int64(len(arr))) {
				key := &(*b.cells)[b.idx]
				obj, ok := byteArrays[key]
				if !ok {
					z := smtStr(strings.Repeat("\x00", len(arr)))
					obj = &z
					byteArrays[key] = obj
				}
				return BytesV{Obj: obj}
			}
		}
		cells := []any(arr)
		h := len(arr)
		if hi != nil {
			h = int(hi.(int64))
		}
		l := int(lo.(int64))
		return SliceV{&cells, l, h - l, len(arr) - l}
	case SliceV:
		h := b.len
		if hi != nil {
			h = int(e.concretize(hi))
		}
		l := int(e.concretize(lo))
		c := b.cap
		if x.Max != nil {
			c = int(e.concretize(e.get(f, x.Max)))
		}
		if l < 0 || l > h || h > c || c > b.cap {
			e.panicObligation("PANIC slice bounds out of range at " + relPath(f.fn.Prog.Fset.Position(x.Pos()).String()))
		}
		return SliceV{b.arr, b.off + l, h - l, c - l}
	}
	panic(fmt.Sprintf("slice of %T", base))
}

func (e *Engine) strlen(v any) any {
	switch s := v.(type) {
	case string:
		return int64(len(s))
	case SymStr:
		return SymInt{"(str.len " + s.E + ")"}
	}
	panic("strlen")
}

func (e *Engine) binop(op token.Token, a, b any, x *ssa.BinOp) any {
	// strings
	_, as := a.(string)
	_, ass := a.(SymStr)
	if as || ass {
		bs, bok := b.(string)
		if as && bok {
			av := a.(string)
			switch op {
			case token.ADD:
				return av + bs
			case token.EQL:
				return av == bs
			case token.NEQ:
				return av != bs
			}
		}
		switch op {
		case token.ADD:
			return SymStr{"(str.++ " + strE(a) + " " + strE(b) + ")"}
		case token.EQL:
			return SymBool{"(= " + strE(a) + " " + strE(b) + ")"}
		case token.NEQ:
			return SymBool{"(not (= " + strE(a) + " " + strE(b) + "))"}
		}
	}
	_, ar := a.(SymReal)
	_, br := b.(SymReal)
	if ar || br {
		A, B := realE(a), realE(b)
		switch op {
		case token.ADD:
			return SymReal{"(+ " + A + " " + B + ")"}
		case token.SUB:
			return SymReal{"(- " + A + " " + B + ")"}
		case token.MUL:
			return SymReal{"(* " + A + " " + B + ")"}
		case token.QUO:
			return SymReal{"(/ " + A + " " + B + ")"}
		case token.EQL:
			return SymBool{"(= " + A + " " + B + ")"}
		case token.NEQ:
			return SymBool{"(not (= " + A + " " + B + "))"}
		case token.LSS:
			return SymBool{"(< " + A + " " + B + ")"}
		case token.LEQ:
			return SymBool{"(<= " + A + " " + B + ")"}
		case token.GTR:
			return SymBool{"(> " + A + " " + B + ")"}
		case token.GEQ:
			return SymBool{"(>= " + A + " " + B + ")"}
		}
	}
	ai, aok := a.(int64)
	bi, bok := b.(int64)
	if aok && bok {
		switch op {
		case token.ADD:
			return ai + bi
		case token.SUB:
			return ai - bi
		case token.MUL:
			return ai * bi
		case token.QUO:
			return ai / bi
		case token.REM:
			return ai % bi
		case token.EQL:
			return ai == bi
		case token.NEQ:
			return ai != bi
		case token.LSS:
			return ai < bi
		case token.LEQ:
			return ai <= bi
		case token.GTR:
			return ai > bi
		case token.GEQ:
			return ai >= bi
		}
	}
	_, asi := a.(SymInt)
	_, bsi := b.(SymInt)
	if asi || bsi {
		A, B := intE(a), intE(b)
		switch op {
		case token.ADD:
			return SymInt{"(+ " + A + " " + B + ")"}
		case token.SUB:
			return SymInt{"(- " + A + " " + B + ")"}
		case token.MUL:
			return SymInt{"(* " + A + " " + B + ")"}
		case token.QUO:
			e.oblige("(not (= "+B+" 0))", "PANIC divide by zero")
			return SymInt{truncDiv(A, B)}
		case token.REM:
			e.oblige("(not (= "+B+" 0))", "PANIC divide by zero")
			return SymInt{fmt.Sprintf("(- %s (* %s %s))", A, B, truncDiv(A, B))}
		case token.EQL:
			return SymBool{"(= " + A + " " + B + ")"}
		case token.NEQ:
			return SymBool{"(not (= " + A + " " + B + "))"}
		case token.LSS:
			return SymBool{"(< " + A + " " + B + ")"}
		case token.LEQ:
			return SymBool{"(<= " + A + " " + B + ")"}
		case token.GTR:
			return SymBool{"(> " + A + " " + B + ")"}
		case token.GEQ:
			return SymBool{"(>= " + A + " " + B + ")"}
		}
	}
	// pointer / nil comparisons
	if op == token.EQL || op == token.NEQ {
		eq := ptrEq(a, b)
		if op == token.NEQ {
			return !eq
		}
		return eq
	}
	if ab, ok := a.(bool); ok {
		if bb, ok := b.(bool); ok {
			switch op {
			case token.AND:
				return ab && bb
			case token.OR:
				return ab || bb
			}
		}
	}
	panic(fmt.Sprintf("binop %s on %T %T", op, a, b))
}

// truncDiv is Go's integer division (truncation toward zero) over SMT's flooring div.
func truncDiv(A, B string) string {
	return fmt.Sprintf("(let ((q (div (abs %s) (abs %s)))) (ite (= (>= %s 0) (>= %s 0)) q (- q)))", A, B, A, B)
}

func ptrEq(a, b any) bool {
	isNil := func(v any) bool {
		switch x := v.(type) {
		case nil:
			return true
		case Closure:
			return x.fn == nil
		case IfaceV:
			return x.T == nil
		case SliceV:
			return x.arr == nil
		case BytesV:
			return x.Nil
		}
		return false
	}
	if isNil(a) || isNil(b) {
		return isNil(a) && isNil(b)
	}
	pa, ok1 := a.(Ptr)
	pb, ok2 := b.(Ptr)
	if ok1 && ok2 {
		return pa.cells == pb.cells && pa.idx == pb.idx || (&(*pa.cells)[pa.idx] == &(*pb.cells)[pb.idx])
	}
	if ia, ok := a.(IfaceV); ok {
		if ib, ok := b.(IfaceV); ok {
			return ia.V == ib.V
		}
	}
	panic(fmt.Sprintf("ptrEq %T %T", a, b))
}

func (e *Engine) doCall(f *frame, c *ssa.CallCommon) any {
	args := make([]any, len(c.Args))
	for i, a := range c.Args {
		args[i] = e.get(f, a)
	}
	if c.IsInvoke() {
		recv := e.get(f, c.Value).(IfaceV)
		return e.invokeMethod(recv, c.Method, args)
	}
	switch fn := c.Value.(type) {
	case *ssa.Builtin:
		return e.builtin(fn.Name(), args, c)
	case *ssa.Function:
		return e.call(fn, args, nil)
	default:
		cv := e.get(f, c.Value)
		if nf, ok := cv.(NativeFn); ok {
			return nf(e, args)
		}
		cl, isCl := cv.(Closure)
		if !isCl || cl.fn == nil {
			e.panicObligation("PANIC call of a nil function value at " + relPath(f.fn.Prog.Fset.Position(c.Pos()).String()))
		}
		return e.call(cl.fn, args, cl.bind)
	}
}

// zeroLike: the zero value of the kind of an existing element (used for spare capacity of reallocated slices).
func zeroLike(v any) any {
	switch v.(type) {
	case Closure:
		return Closure{}
	case IfaceV:
		return IfaceV{}
	case string, SymStr:
		return ""
	case int64, SymInt:
		return int64(0)
	}
	return nil
}

func (e *Engine) builtin(name string, args []any, c *ssa.CallCommon) any {
	switch name {
	case "len":
		switch a := args[0].(type) {
		case string, SymStr:
			return e.strlen(a)
		case SliceV:
			return int64(a.len)
		case nil: // a nil map or slice value
			return int64(0)
		case *MapV:
			if a == nil {
				return int64(0)
			}
			return int64(len(a.keys))
		case BytesV:
			if a.Nil && a.Obj == nil {
				return int64(0)
			}
			return SymInt{"(str.len " + bytesE(a) + ")"}
		}
	case "copy":
		dst, src := args[0].(SliceV), args[1].(SliceV)
		n := dst.len
		if src.len < n {
			n = src.len
		}
		for i := 0; i < n; i++ {
			e.checkWrite(*dst.arr, dst.off+i, "copy")
			(*dst.arr)[dst.off+i] = (*src.arr)[src.off+i]
		}
		return int64(n)
	case "close":
		e.closeChan(args[0].(*ChanV))
		return nil
	case "cap":
		return int64(args[0].(SliceV).cap)
	case "append":
		if b0, ok := args[0].(BytesV); ok {
			return BytesV{E: "(str.++ " + bytesE(b0) + " " + bytesE(args[1]) + ")"}
		}
		s := args[0].(SliceV)
		add := args[1].(SliceV)
		if s.len+add.len <= s.cap && s.arr != nil {
			if add.len > 0 {
				e.checkWrite(*s.arr, s.off+s.len, "append in place (len+n<=cap)")
			}
			for i := 0; i < add.len; i++ {
				(*s.arr)[s.off+s.len+i] = (*add.arr)[add.off+i]
			}
			return SliceV{s.arr, s.off, s.len + add.len, s.cap}
		}
		n := s.len + add.len
		// reallocation: cap == len (tightest) unless the harness asked for the runtime's freedom to round the capacity
		// up (vf.AppendSpare(k)): then the spare capacity is an arbitrary value in 0..k
		spare := 0
		if e.appendSpare > 0 {
			// one choice per enabling of the directive (every reallocation then gets that much spare capacity):
			// enough to expose capacity-dependent aliasing without forking at every append
			if e.appendSpareChosen < 0 {
				sym := e.freshSym("Int", "spare")
				e.S.Send(fmt.Sprintf("(assert (and (<= 0 %s) (<= %s %d)))", sym, sym, e.appendSpare))
				e.appendSpareChosen = int(e.concretize(SymInt{sym}))
			}
			spare = e.appendSpareChosen
		}
		arr := make([]any, n+spare)
		if spare > 0 {
			var el any
			if add.len > 0 {
				el = zeroLike((*add.arr)[add.off])
			} else if s.len > 0 {
				el = zeroLike((*s.arr)[s.off])
			}
			for i := n; i < n+spare; i++ {
				arr[i] = el
			}
		}
		noteAlloc(arr)
		for i := 0; i < s.len; i++ {
			arr[i] = (*s.arr)[s.off+i]
		}
		for i := 0; i < add.len; i++ {
			arr[s.len+i] = (*add.arr)[add.off+i]
		}
		return SliceV{&arr, 0, n, n + spare}
	}
	panic("builtin " + name)
}
