package main

import (
	"fmt"
	"go/types"
	"strings"

	"golang.org/x/tools/go/ssa"
)

type BytesV struct {
	E   string
	Nil bool
	Obj *string // non-nil for buffers with identity (make([]byte,n)); content then lives in *Obj
	// provenance for signatures made by harness: key index expr and message expr
	SigKey string
	SigMsg string
}
type OpaqueV struct{ name string }
type RandV struct{}

var prog *ssa.Program
var allowedInit = map[string]bool{}
var initDone = map[string]bool{}

func namedType(pkg, name string) types.Type {
	return prog.ImportedPackage(pkg).Type(name).Type()
}

func isByteSlice(t types.Type) bool {
	s, ok := t.Underlying().(*types.Slice)
	if !ok {
		return false
	}
	b, ok := s.Elem().Underlying().(*types.Basic)
	return ok && b.Kind() == types.Uint8
}

func deepCopy(v any, seen map[*[]any]*[]any) any {
	switch x := v.(type) {
	case Ptr:
		if n, ok := seen[x.cells]; ok {
			return Ptr{n, x.idx}
		}
		nc := make([]any, len(*x.cells))
		seen[x.cells] = &nc
		for i, c := range *x.cells {
			nc[i] = deepCopy(c, seen)
		}
		return Ptr{&nc, x.idx}
	case StructV:
		c := make(StructV, len(x))
		for i := range x {
			c[i] = deepCopy(x[i], seen)
		}
		return c
	case SliceV:
		if x.arr == nil {
			return x
		}
		na := make([]any, len(*x.arr))
		for i, c := range *x.arr {
			na[i] = deepCopy(c, seen)
		}
		return SliceV{&na, x.off, x.len, x.cap}
	case IfaceV:
		return IfaceV{x.T, deepCopy(x.V, seen)}
	}
	return v
}

func errIs(v any, target any) bool {
	iv, ok := v.(IfaceV)
	if !ok || iv.T == nil {
		return false
	}
	tv := target.(IfaceV)
	if _, isStruct := iv.V.(StructV); !isStruct {
		if _, isStruct2 := tv.V.(StructV); !isStruct2 && iv.V == tv.V {
			return true
		}
	}
	if ev, ok := iv.V.(*ErrV); ok {
		for _, w := range ev.wrap {
			if errIs(w, target) {
				return true
			}
		}
	}
	return false
}

func (e *Engine) stub2(fn *ssa.Function, args []any) (any, bool) {
	name := fn.String()
	switch name {
	case "github.com/hashicorp/nodeenrollment.IsNil":
		iv := args[0].(IfaceV)
		return iv.T == nil || iv.V == nil, true
	case "github.com/hashicorp/go-hclog.NewNullLogger":
		return IfaceV{namedType("github.com/hashicorp/go-hclog", "Logger"), OpaqueV{"nulllogger"}}, true
	case "context.Background":
		return IfaceV{namedType("context", "Context"), &CtxV{ch: &ChanV{elem: types.NewStruct(nil, nil)}}}, true
	case "google.golang.org/protobuf/proto.Clone":
		return deepCopy(args[0], map[*[]any]*[]any{}), true
	case "github.com/hashicorp/nodeenrollment.KeyIdFromPkix":
		b := args[0].(BytesV)
		return Tuple{SymStr{"(keyid " + b.E + ")"}, IfaceV{}}, true
	case "crypto/x509.ParsePKIXPublicKey":
		b := args[0].(BytesV)
		// every harness-provided pkix is a well-formed ed25519 key in this spike
		return Tuple{IfaceV{namedType("crypto/ed25519", "PublicKey"), BytesV{E: "(pubof " + b.E + ")"}}, IfaceV{}}, true
	case "crypto/ed25519.Verify":
		pk, msg, sig := args[0].(BytesV), args[1].(BytesV), args[2].(BytesV)
		if sig.SigKey == "" {
			return false, true
		}
		return SymBool{fmt.Sprintf("(and (>= %s 0) (= %s %s) (= %s %s))", sig.SigKey, bytesE(pk), pubE(sig.SigKey), bytesE(msg), sig.SigMsg)}, true
	case "errors.Join":
		va := args[0].(SliceV)
		var w []any
		for i := 0; i < va.len; i++ {
			if iv := (*va.arr)[va.off+i].(IfaceV); iv.T != nil {
				w = append(w, iv)
			}
		}
		if len(w) == 0 {
			return IfaceV{}, true
		}
		return e.mkErr("join", w...), true
	case "errors.Is":
		return errIs(args[0], args[1]), true
	case "errors.As":
		tgt := args[1].(IfaceV)
		elem := tgt.T.(*types.Pointer).Elem()
		var find func(v any) (any, bool)
		find = func(v any) (any, bool) {
			iv, ok := v.(IfaceV)
			if !ok || iv.T == nil {
				return nil, false
			}
			if ev, isErr := iv.V.(*ErrV); isErr {
				for _, w := range ev.wrap {
					if r, ok := find(w); ok {
						return r, true
					}
				}
				return nil, false
			}
			if types.AssignableTo(iv.T, elem) {
				if _, isIface := elem.Underlying().(*types.Interface); isIface {
					return iv, true
				}
				return iv.V, true
			}
			return nil, false
		}
		if r, ok := find(args[0]); ok {
			p := tgt.V.(Ptr)
			(*p.cells)[p.idx] = r
			return true, true
		}
		return false, true
	case "fmt.Errorf":
		// only %w operands are wrapped (errors.Is/As/Unwrap see them); other verbs just format
		var w []any
		if len(args) > 1 {
			va := args[1].(SliceV)
			format, _ := args[0].(string)
			ai := 0
			for i := 0; i < len(format); i++ {
				if format[i] != '%' {
					continue
				}
				j := i + 1
				for j < len(format) && strings.IndexByte("+-# 0123456789.[]*", format[j]) >= 0 {
					j++
				}
				if j >= len(format) {
					break
				}
				if format[j] == '%' {
					i = j
					continue
				}
				if format[j] == 'w' && ai < va.len {
					if iv, ok := (*va.arr)[va.off+ai].(IfaceV); ok && iv.T != nil {
						if iv2, ok := iv.V.(IfaceV); ok { // an error boxed once more in the variadic any
							iv = iv2
						}
						if iv.T != nil {
							w = append(w, iv)
						}
					}
				}
				ai++
				i = j
			}
		}
		return e.mkErr(fmt.Sprint(args[0]), w...), true
	}
	if fn.Name() == "init" && (fn.Pkg == nil || !strings.HasPrefix(fn.Pkg.Pkg.Path(), "github.com/hashicorp/nodeenrollment")) {
		return nil, true
	}
	// package initialisers of the library's own packages run (package-level variables such as pools, sentinel errors,
	// tables); a package's init runs once per path
	if fn.Name() == "init" && (fn.Blocks == nil || strings.HasSuffix(fn.Pkg.Pkg.Path(), "/zzverif/vf") || strings.HasSuffix(fn.Pkg.Pkg.Path(), "/zzverif/vfs")) {
		return nil, true
	}
	if fn.Name() == "init" {
		if initDone[fn.Pkg.Pkg.Path()] {
			return nil, true
		}
		initDone[fn.Pkg.Pkg.Path()] = true
	}
	if strings.HasPrefix(fn.Name(), "file_") { // protobuf registration
		return nil, true
	}
	return nil, false
}

// stripOneWay removes every subterm built by a one-way constructor from an SMT term string.
func stripOneWay(t string) string {
	for _, head := range []string{"(mac ", "(dhs ", "(dh ", "(x25519pub "} {
		for {
			i := strings.Index(t, head)
			if i < 0 {
				break
			}
			depth, j := 0, i
			for ; j < len(t); j++ {
				if t[j] == '(' {
					depth++
				} else if t[j] == ')' {
					depth--
					if depth == 0 {
						break
					}
				}
			}
			if j >= len(t) {
				break
			}
			t = t[:i] + "<oneway>" + t[j+1:]
		}
	}
	return t
}

// universeIdx: the key universes have 16 members; an index outside them would silently alias another key.
func (e *Engine) universeIdx(v any) {
	if k, ok := v.(int64); ok && (k < 0 || k > 15) {
		e.inconclusive = append(e.inconclusive, fmt.Sprintf("key universe index %d outside 0..15", k))
	} else if s, ok := v.(SymInt); ok {
		if r := e.S.CheckWith("(or (< " + s.E + " 0) (> " + s.E + " 15))"); r != "unsat" {
			e.inconclusive = append(e.inconclusive, "symbolic key universe index may leave 0..15")
		}
	}
}

func (e *Engine) intrinsic2(name string, args []any) (any, bool) {
	switch name {
	case "Garbage": // bytes that no decoder accepts: first byte 0xFF (invalid protobuf wire type, outside the base64/base58 alphabets)
		n := e.input("String", args[0].(string))
		e.S.Send(fmt.Sprintf("(assert (and (<= (str.len %s) %d) (str.prefixof \"\\u{ff}\" %s)))", n, args[1].(int64), n))
		e.bounds[fmt.Sprintf("%s: garbage bytes, 1 <= len <= %d", args[0].(string), args[1].(int64))] = true
		return BytesV{E: n}, true
	case "Bytes":
		e.bounds[fmt.Sprintf("%s: arbitrary bytes, len <= %d", args[0].(string), args[1].(int64))] = true
		n := e.input("String", args[0].(string))
		e.S.Send(fmt.Sprintf("(assert (<= (str.len %s) %d))", n, args[1].(int64)))
		e.S.Send(fmt.Sprintf("(assert (not (str.prefixof \"\\u{1}\" %s)))", n))
		return BytesV{E: n}, true
	case "Pkix": // pkix of key #i (i symbolic)
		e.universeIdx(args[0])
		return BytesV{E: pkixE(intE(args[0]))}, true
	case "X25519Priv": // 32-byte private scalar of universe key k (distinct per k)
		e.universeIdx(args[0])
		return BytesV{E: "(x25519priv " + intE(args[0]) + ")"}, true
	case "X25519Pub":
		e.universeIdx(args[0])
		return BytesV{E: e.x25519Pub("(x25519priv " + intE(args[0]) + ")")}, true
	case "SecretFree": // no secret occurs in clear in any byte/string field of the message
		var leaves []string
		var walk func(v any, seen map[*[]any]bool)
		walk = func(v any, seen map[*[]any]bool) {
			switch x := v.(type) {
			case IfaceV:
				walk(x.V, seen)
			case Ptr:
				if seen[x.cells] {
					return
				}
				seen[x.cells] = true
				walk((*x.cells)[x.idx], seen)
			case StructV:
				for _, f := range x {
					walk(f, seen)
				}
			case SliceV:
				for i := 0; i < x.len; i++ {
					walk((*x.arr)[x.off+i], seen)
				}
			case BytesV:
				leaves = append(leaves, bytesE(x))
			case SymStr:
				leaves = append(leaves, x.E)
			}
		}
		walk(args[0], map[*[]any]bool{})
		secrets := args[1].(SliceV)
		for i := 0; i < secrets.len; i++ {
			s := bytesE((*secrets.arr)[secrets.off+i])
			for _, l := range leaves {
				// ciphertexts are fresh symbols, so a secret term can only occur syntactically in a field that carries it in
				// clear; occurrences below a one-way constructor (MAC, DH, public-key derivation) do not reveal it
				if strings.Contains(stripOneWay(l), s) || e.S.CheckWith("(not (= "+l+" "+s+"))") == "unsat" {
					return false, true
				}
			}
		}
		return true, true
	case "Pkcs8": // PKCS8 encoding of universe key k's private key
		k := intE(args[0])
		out := BytesV{E: "(str.++ \"\\u{1}s\" (str.++ \"\\u{1}S\" " + pkixE(k) + "))"}
		privIdx[out.E] = k
		return out, true
	case "SigBy": // signature by key #i over msg; i<0 means junk
		m := args[1].(BytesV)
		n := e.freshSym("String", "sig")
		e.S.Send(fmt.Sprintf("(assert (= (str.len %s) 64))", n))
		return BytesV{E: n, SigKey: intE(args[0]), SigMsg: m.E}, true
	case "Bool":
		n := e.input("Bool", args[0].(string))
		return SymBool{n}, true
	case "And":
		return SymBool{"(and " + boolE(args[0]) + " " + boolE(args[1]) + ")"}, true
	case "Or":
		return SymBool{"(or " + boolE(args[0]) + " " + boolE(args[1]) + ")"}, true
	case "Implies":
		return SymBool{"(=> " + boolE(args[0]) + " " + boolE(args[1]) + ")"}, true
	case "EqInt":
		return SymBool{"(= " + intE(args[0]) + " " + intE(args[1]) + ")"}, true
	case "SigOK": // ghost predicate: sig is a valid signature by key #k over msg
		k, msg, sig := args[0], args[1].(BytesV), args[2].(BytesV)
		if sig.SigKey == "" {
			return false, true
		}
		return SymBool{fmt.Sprintf("(and (>= %s 0) (= %s %s) (= %s %s))", sig.SigKey, sig.SigKey, intE(k), msg.E, sig.SigMsg)}, true
	}
	return nil, false
}

func (e *Engine) invokeMethod(recv IfaceV, m *types.Func, args []any) any {
	if recv.T == nil {
		e.panicObligation("PANIC nil interface method call " + m.Name())
	}
	if _, ok := recv.V.(OpaqueV); ok {
		return nil
	}
	if a, ok := recv.V.(*AeadV); ok {
		return e.aeadMethod(a, m.Name(), args)
	}
	if _, ok := recv.V.(*FileInfoV); ok {
		switch m.Name() {
		case "Mode":
			return int64(0)
		case "IsDir":
			return false
		}
		panic("FileInfo method " + m.Name())
	}
	if hm, ok := recv.V.(*HmacV); ok {
		return e.hmacMethod(hm, m.Name(), args)
	}
	if cx, ok := recv.V.(*CtxV); ok {
		return e.ctxMethod(cx, m.Name())
	}
	if _, ok := recv.V.(*CurveV); ok {
		return e.curveMethod(m.Name(), args)
	}
	if _, ok := recv.V.(*RandV); ok && m.Name() == "Read" {
		buf := args[0].(BytesV)
		n := "(str.len " + bytesE(buf) + ")"
		sym := e.freshSym("String", "rand")
		e.S.Send(fmt.Sprintf("(assert (= (str.len %s) %s))", sym, n))
		for _, prev := range e.randSyms { // freshness: random outputs never collide (negligible-probability assumption)
			e.S.Send(fmt.Sprintf("(assert (not (= %s %s)))", sym, prev))
		}
		e.randSyms = append(e.randSyms, sym)
		if buf.Obj != nil {
			*buf.Obj = sym
		}
		return Tuple{SymInt{n}, IfaceV{}}
	}
	if _, ok := recv.V.(*ErrV); ok && m.Name() == "Error" {
		return SymStr{e.freshSym("String", "errtext")}
	}
	ms := prog.MethodSets.MethodSet(recv.T)
	sel := ms.Lookup(m.Pkg(), m.Name())
	if sel == nil {
		panic("no method " + m.Name() + " on " + recv.T.String())
	}
	fn := prog.MethodValue(sel)
	return e.call(fn, append([]any{recv.V}, args...), nil)
}
