package main

import (
	"fmt"
	"go/types"
	"strings"

	"golang.org/x/tools/go/ssa"
)

// provenance of marshalled protobuf messages: bytes symbol -> snapshot
type msgProv struct {
	T    types.Type // pointer-to-struct type
	Snap any        // deep copy of the struct value
}

var msgOf = map[string]*msgProv{}

// timestamps: *timestamppb.Timestamp objects are engine cells with a side table
var tsOf = map[*any]TimeV{}

func (e *Engine) newTimestamp(t TimeV) Ptr {
	tt := namedType("google.golang.org/protobuf/types/known/timestamppb", "Timestamp")
	sv := zero(tt).(StructV)
	sv[len(sv)-2] = t // the Seconds slot carries the whole instant (ns) in this model
	cells := []any{sv}
	noteAlloc(cells)
	return Ptr{&cells, 0}
}

func (e *Engine) clock() TimeV {
	e.clockN++
	t := e.freshSym("Int", "clock")
	e.S.Send(fmt.Sprintf("(assert (and (<= 1500000000000000000 %s) (<= %s 4000000000000000000)))", t, t)) // 2017..2096
	if e.clockN > 1 {
		e.S.Send(fmt.Sprintf("(assert (<= %s %s))", e.lastClockSym, t))
		if e.pendingSleep != "" { // vf.Sleep(d): at least d passes before the next reading
			e.S.Send(fmt.Sprintf("(assert (<= (+ %s %s) %s))", e.lastClockSym, e.pendingSleep, t))
			e.sleepDur[len(e.Clock)] = e.pendingSleep
			e.pendingSleep = ""
		}
	}
	e.lastClockSym = t
	e.Clock = append(e.Clock, t)
	return TimeV{t}
}

func (e *Engine) stub4(fn *ssa.Function, args []any) (any, bool) {
	switch fn.String() {
	case "google.golang.org/protobuf/proto.Marshal":
		iv := args[0].(IfaceV)
		if iv.T == nil || iv.V == nil {
			return Tuple{BytesV{E: `""`, Nil: true}, IfaceV{}}, true
		}
		p := iv.V.(Ptr)
		sym := e.freshSym("String", "marshal")
		// constructed values live in a reserved part of the byte-string space: they start with the tag
		// byte 0x01, which raw harness inputs (vf.Bytes/vf.String) are constrained not to start with.
		// proto3: a message whose fields are all default marshals to zero bytes
		nd := nonDefault((*p.cells)[p.idx])
		e.S.Send(fmt.Sprintf("(assert (ite %s (str.prefixof \"\\u{1}M\" %s) (= %s \"\")))", nd, sym, sym))
		// wire size: every non-empty bytes/string field costs its length plus at least a tag and a length byte
		if lb := marshalLowerBound((*p.cells)[p.idx]); lb != "" {
			e.S.Send(fmt.Sprintf("(assert (>= (str.len %s) %s))", sym, lb))
		}
		e.S.Send(fmt.Sprintf("(assert (<= (str.len %s) 400))", sym)) // stated bound of the spike: small messages
		msgOf[sym] = &msgProv{T: iv.T, Snap: deepCopy((*p.cells)[p.idx], map[*[]any]*[]any{})}
		return Tuple{BytesV{E: sym}, IfaceV{}}, true
	case "google.golang.org/protobuf/proto.Unmarshal":
		b := args[0].(BytesV)
		dst := args[1].(IfaceV)
		p := dst.V.(Ptr)
		if sym, ok := e.resolve(bytesE(b), keysOf(msgOf)); ok {
			mp := msgOf[sym]
			if !types.Identical(mp.T, dst.T) {
				return e.mkErr("proto: wrong message type (model)"), true
			}
			(*p.cells)[p.idx] = deepCopy(mp.Snap, map[*[]any]*[]any{})
			return IfaceV{}, true
		}
		return nil, false // fall through to the arbitrary-bytes model in stub3
	case "time.Now":
		return e.clock(), true
	case "(time.Time).Add":
		return TimeV{"(+ " + args[0].(TimeV).E + " " + intE(args[1]) + ")"}, true
	case "(time.Time).Sub":
		return SymInt{"(- " + args[0].(TimeV).E + " " + args[1].(TimeV).E + ")"}, true
	case "time.Until":
		return SymInt{"(- " + args[0].(TimeV).E + " " + e.clock().E + ")"}, true
	case "(time.Time).IsZero":
		return SymBool{"(= " + args[0].(TimeV).E + " (- 62135596800000000000))"}, true
	case "google.golang.org/protobuf/types/known/timestamppb.New":
		return e.newTimestamp(args[0].(TimeV)), true
	case "google.golang.org/protobuf/types/known/timestamppb.Now":
		return e.newTimestamp(e.clock()), true
	case "(*google.golang.org/protobuf/types/known/timestamppb.Timestamp).AsTime":
		if args[0] == nil {
			return TimeV{"0"}, true
		}
		p := args[0].(Ptr)
		sv := (*p.cells)[p.idx].(StructV)
		if t, ok := sv[len(sv)-2].(TimeV); ok {
			return t, true
		}
		return TimeV{"0"}, true // zero-valued Timestamp message == Unix epoch
	case "(github.com/hashicorp/nodeenrollment/types.KEYTYPE).String":
		return SymStr{e.freshSym("String", "enumname")}, true
	}
	return nil, false
}

func (e *Engine) intrinsic3(name string, args []any) (any, bool) {
	switch name {
	case "Sleep":
		e.pendingSleep = intE(args[0])
		return nil, true
	case "Now": // harness reads the clock
		return e.clock(), true
	case "TimeFromNow": // clock reading at harness start + symbolic offset (ns)
		off := e.input("Int", args[0].(string))
		e.S.Send(fmt.Sprintf("(assert (and (<= (- 4000000000000000000) %s) (<= %s 4000000000000000000)))", off, off))
		return TimeV{"(+ " + args[1].(TimeV).E + " " + off + ")"}, true
	case "Dur":
		d := e.input("Int", args[0].(string))
		e.S.Send(fmt.Sprintf("(assert (and (<= %s %s) (<= %s %s)))", intE(args[1]), d, d, intE(args[2])))
		return SymInt{d}, true
	case "ClockReading": // ghost: the i-th reading of the clock (0-based) taken so far
		i := args[0].(int64)
		if int(i) >= len(e.Clock) {
			panic(pathEnd{"no such clock reading"})
		}
		return TimeV{e.Clock[i]}, true
	case "TimeLE":
		ex := "(<= " + args[0].(TimeV).E + " " + args[1].(TimeV).E + ")"
		timeCmps[ex] = timeCmp{args[0].(TimeV).E, args[1].(TimeV).E, "le"}
		return SymBool{ex}, true
	case "TimeLT":
		ex := "(< " + args[0].(TimeV).E + " " + args[1].(TimeV).E + ")"
		timeCmps[ex] = timeCmp{args[0].(TimeV).E, args[1].(TimeV).E, "lt"}
		return SymBool{ex}, true
	case "TimeIs":
		i := args[1].(int64)
		if int(i) >= len(e.Clock) {
			panic(pathEnd{"no such clock reading"})
		}
		rhs := "(+ " + e.Clock[i] + " " + intE(args[2]) + ")"
		ex := "(= " + args[0].(TimeV).E + " " + rhs + ")"
		timeCmps[ex] = timeCmp{args[0].(TimeV).E, rhs, "eq"}
		return SymBool{ex}, true
	case "TimeEq":
		return SymBool{"(= " + args[0].(TimeV).E + " " + args[1].(TimeV).E + ")"}, true
	case "Iff":
		return SymBool{"(= " + boolE(args[0]) + " " + boolE(args[1]) + ")"}, true
	case "EqBytes":
		return SymBool{"(= " + bytesE(args[0]) + " " + bytesE(args[1]) + ")"}, true
	case "Not":
		return SymBool{"(not " + boolE(args[0]) + ")"}, true
	}
	return nil, false
}

// nonDefault builds the SMT condition "some field of this message value is non-default".
func nonDefault(v any) string {
	var parts []string
	var walk func(v any)
	walk = func(v any) {
		switch x := v.(type) {
		case StructV:
			for _, f := range x {
				walk(f)
			}
		case BytesV:
			if !x.Nil || x.Obj != nil {
				parts = append(parts, "(> (str.len "+bytesE(x)+") 0)")
			}
		case SymStr:
			parts = append(parts, "(> (str.len "+x.E+") 0)")
		case string:
			if x != "" {
				parts = append(parts, "true")
			}
		case SymInt:
			parts = append(parts, "(not (= "+x.E+" 0))")
		case int64:
			if x != 0 {
				parts = append(parts, "true")
			}
		case SymBool:
			parts = append(parts, x.E)
		case bool:
			if x {
				parts = append(parts, "true")
			}
		case Ptr:
			parts = append(parts, "true") // a present sub-message is encoded even if empty
		case SliceV:
			if x.len > 0 {
				parts = append(parts, "true")
			}
		case TimeV:
			parts = append(parts, "true")
		}
	}
	walk(v)
	if len(parts) == 0 {
		return "false"
	}
	return "(or false " + strings.Join(parts, " ") + ")"
}

func marshalLowerBound(v any) string {
	var parts []string
	var walk func(v any)
	walk = func(v any) {
		switch x := v.(type) {
		case StructV:
			for _, f := range x {
				walk(f)
			}
		case BytesV:
			if !x.Nil || x.Obj != nil {
				l := "(str.len " + bytesE(x) + ")"
				parts = append(parts, "(ite (> "+l+" 0) (+ "+l+" 2) 0)")
			}
		case SymStr:
			l := "(str.len " + x.E + ")"
			parts = append(parts, "(ite (> "+l+" 0) (+ "+l+" 2) 0)")
		case string:
			if x != "" {
				parts = append(parts, fmt.Sprint(len(x)+2))
			}
		}
	}
	walk(v)
	if len(parts) == 0 {
		return ""
	}
	return "(+ 0 " + strings.Join(parts, " ") + ")"
}
