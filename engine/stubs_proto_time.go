package main

import (
	"fmt"
	"strconv"
	"go/token"
	"go/types"
	"sort"
	"strings"

	"golang.org/x/tools/go/ssa"
)

// provenance of marshalled protobuf messages: bytes symbol -> snapshot
type msgProv struct {
	T    types.Type // pointer-to-struct type
	Snap any        // deep copy of the struct value
}

var msgOf = map[string]*msgProv{}

// timestamps: *timestamppb.Timestamp objects are engine cells with a side table
var tsOf = map[*any]TimeV{}

func (e *Engine) newTimestamp(t TimeV) Ptr {
	tt := namedType("google.golang.org/protobuf/types/known/timestamppb", "Timestamp")
	sv := zero(tt).(StructV)
	sv[len(sv)-2] = t // the Seconds slot carries the whole instant (ns) in this model
	cells := []any{sv}
	noteAlloc(cells)
	return Ptr{&cells, 0}
}

func (e *Engine) clock() TimeV {
	e.clockN++
	t := e.freshSym("Int", "clock")
	e.S.Send(fmt.Sprintf("(assert (and (<= 1500000000000000000 %s) (<= %s 4000000000000000000)))", t, t)) // 2017..2096
	if e.clockN > 1 {
		e.S.Send(fmt.Sprintf("(assert (<= %s %s))", e.lastClockSym, t))
		if e.pendingSleep != "" { // vf.Sleep(d): at least d passes before the next reading
			e.S.Send(fmt.Sprintf("(assert (<= (+ %s %s) %s))", e.lastClockSym, e.pendingSleep, t))
			e.sleepDur[len(e.Clock)] = e.pendingSleep
			e.pendingSleep = ""
		}
	}
	if e.clockBudget != "" { // vf.ShortScenario: every later reading stays within the stated budget of the first one
		e.S.Send(fmt.Sprintf("(assert (<= %s %s))", t, e.clockBudget))
	}
	e.lastClockSym = t
	e.Clock = append(e.Clock, t)
	return TimeV{t}
}

func (e *Engine) stub4(fn *ssa.Function, args []any) (any, bool) {
	switch fn.String() {
	case "google.golang.org/protobuf/proto.Marshal":
		iv := args[0].(IfaceV)
		if iv.T == nil || iv.V == nil {
			return Tuple{BytesV{E: `""`, Nil: true}, IfaceV{}}, true
		}
		p := iv.V.(Ptr)
		// deterministic (canonical) encoding: a message that is field-for-field the same term structure as one
		// marshalled before yields the same bytes
		skey := iv.T.String() + ":" + structKey((*p.cells)[p.idx], map[*[]any]bool{})
		if prev, ok := e.marshalMemo[skey]; ok {
			return Tuple{BytesV{E: prev}, IfaceV{}}, true
		}
		sym := e.freshSym("String", "marshal")
		e.marshalMemo[skey] = sym
		// constructed values live in a reserved part of the byte-string space: they start with the tag
		// byte 0x01, which raw harness inputs (vf.Bytes/vf.String) are constrained not to start with.
		// proto3: a message whose fields are all default marshals to zero bytes
		if enc, ok := e.marshalExactBytes((*p.cells)[p.idx].(StructV), structOf(iv.T)); ok {
			// flat messages of short strings: the bytes are exactly the protobuf encoding (tag, length byte, content per
			// non-empty field, in field order), so truncated / overwritten / concatenated encodings behave as they really do
			e.S.Send(fmt.Sprintf("(assert (= %s %s))", sym, enc))
		} else {
			nd := nonDefault((*p.cells)[p.idx])
			e.S.Send(fmt.Sprintf("(assert (ite %s (str.prefixof \"\\u{1}M\" %s) (= %s \"\")))", nd, sym, sym))
			// wire size: every non-empty bytes/string field costs its length plus at least a tag and a length byte
			if lb := marshalLowerBound((*p.cells)[p.idx]); lb != "" {
				e.S.Send(fmt.Sprintf("(assert (>= (str.len %s) %s))", sym, lb))
			}
		}
		e.S.Send(fmt.Sprintf("(assert (<= (str.len %s) 400))", sym)) // stated bound of the spike: small messages
		msgOf[sym] = &msgProv{T: iv.T, Snap: deepCopy((*p.cells)[p.idx], map[*[]any]*[]any{})}
		return Tuple{BytesV{E: sym}, IfaceV{}}, true
	case "google.golang.org/protobuf/proto.Unmarshal":
		b := args[0].(BytesV)
		dst := args[1].(IfaceV)
		p := dst.V.(Ptr)
		if sym, ok := e.resolve(bytesE(b), keysOf(msgOf)); ok {
			mp := msgOf[sym]
			if !types.Identical(mp.T, dst.T) {
				return e.mkErr("proto: wrong message type (model)"), true
			}
			(*p.cells)[p.idx] = deepCopy(mp.Snap, map[*[]any]*[]any{})
			return IfaceV{}, true
		}
		return nil, false // fall through to the arbitrary-bytes model in stub3
	case "time.Now":
		return e.clock(), true
	case "(time.Time).Add":
		return TimeV{"(+ " + args[0].(TimeV).E + " " + intE(args[1]) + ")"}, true
	case "(time.Time).Sub":
		return SymInt{"(- " + args[0].(TimeV).E + " " + args[1].(TimeV).E + ")"}, true
	case "(time.Duration).Hours":
		return SymReal{"(/ " + realE(args[0]) + " 3600000000000.0)"}, true
	case "(time.Duration).Minutes":
		return SymReal{"(/ " + realE(args[0]) + " 60000000000.0)"}, true
	case "(time.Duration).Seconds":
		return SymReal{"(/ " + realE(args[0]) + " 1000000000.0)"}, true
	case "(time.Duration).Milliseconds":
		return e.binop(token.QUO, args[0], int64(1000000), nil), true
	case "(time.Duration).Microseconds":
		return e.binop(token.QUO, args[0], int64(1000), nil), true
	case "(time.Duration).Nanoseconds":
		return args[0], true
	case "time.Since":
		return SymInt{"(- " + e.clock().E + " " + args[0].(TimeV).E + ")"}, true
	case "(time.Time).Equal":
		return SymBool{"(= " + args[0].(TimeV).E + " " + args[1].(TimeV).E + ")"}, true
	case "(time.Time).Compare":
		a, b := args[0].(TimeV).E, args[1].(TimeV).E
		return SymInt{fmt.Sprintf("(ite (< %s %s) (- 1) (ite (= %s %s) 0 1))", a, b, a, b)}, true
	case "(time.Time).UnixNano":
		return SymInt{args[0].(TimeV).E}, true
	case "(time.Time).Unix":
		return e.binop(token.QUO, SymInt{args[0].(TimeV).E}, int64(1000000000), nil), true
	case "(time.Time).UTC", "(time.Time).Local":
		return args[0], true
	case "time.Until":
		return SymInt{"(- " + args[0].(TimeV).E + " " + e.clock().E + ")"}, true
	case "(time.Time).IsZero":
		return SymBool{"(= " + args[0].(TimeV).E + " (- 62135596800000000000))"}, true
	case "google.golang.org/protobuf/types/known/timestamppb.New":
		return e.newTimestamp(args[0].(TimeV)), true
	case "google.golang.org/protobuf/types/known/timestamppb.Now":
		return e.newTimestamp(e.clock()), true
	case "(*google.golang.org/protobuf/types/known/timestamppb.Timestamp).AsTime":
		if args[0] == nil {
			return TimeV{"0"}, true
		}
		p := args[0].(Ptr)
		sv := (*p.cells)[p.idx].(StructV)
		if t, ok := sv[len(sv)-2].(TimeV); ok {
			return t, true
		}
		return TimeV{"0"}, true // zero-valued Timestamp message == Unix epoch
	case "(github.com/hashicorp/nodeenrollment/types.KEYTYPE).String":
		return SymStr{e.freshSym("String", "enumname")}, true
	}
	return nil, false
}

func (e *Engine) intrinsic3(name string, args []any) (any, bool) {
	switch name {
	case "IfInt": // non-branching conditional values: the choice stays inside the term
		return SymInt{"(ite " + boolE(args[0]) + " " + intE(args[1]) + " " + intE(args[2]) + ")"}, true
	case "IfStr":
		return SymStr{"(ite " + boolE(args[0]) + " " + strE(args[1]) + " " + strE(args[2]) + ")"}, true
	case "IfBytes":
		return BytesV{E: "(ite " + boolE(args[0]) + " " + bytesE(args[1]) + " " + bytesE(args[2]) + ")"}, true
	case "Bound": // a harness bound (e.g. "the call makes at most N storage operations"): exceeding it is inconclusive, never a violation
		if r := e.S.CheckWith("(not " + boolE(args[1]) + ")"); r != "unsat" {
			e.inconclusive = append(e.inconclusive, "harness bound "+strconv.Quote(args[0].(string))+" can be exceeded on this tree: raise it")
		}
		return nil, true
	case "Sat": // non-vacuity / tightness twin: the condition is satisfiable on this path (counted like a reach label)
		if e.S.CheckWith(boolE(args[1])) == "sat" {
			e.Reach[args[0].(string)]++
		}
		return nil, true
	case "Native":
		return false, true
	case "AppendSpare":
		e.appendSpare, e.appendSpareChosen = int(args[0].(int64)), -1
		return nil, true
	case "ShortScenario": // clock assumption: all further clock readings are at most d after base
		e.clockBudget = "(+ " + args[0].(TimeV).E + " " + intE(args[1]) + ")"
		return nil, true
	case "FillRandom": // FillRandom(p, n): n fresh random bytes followed by zeroes, written into the buffer p
		buf := args[0].(BytesV)
		if buf.Obj == nil {
			panic("FillRandom on a byte slice without identity")
		}
		ln := "(str.len " + bytesE(buf) + ")"
		sym := e.freshSym("String", "rand")
		n := intE(args[1])
		e.S.Send(fmt.Sprintf("(assert (= (str.len %s) %s))", sym, n))
		for _, prev := range e.randSyms {
			e.S.Send(fmt.Sprintf("(assert (or (= %s \"\") (not (= %s %s))))", sym, sym, prev))
		}
		e.randSyms = append(e.randSyms, sym)
		zeros := smtStr(strings.Repeat("\x00", 64))
		*buf.Obj = fmt.Sprintf("(str.++ %s (str.substr %s 0 (- %s %s)))", sym, zeros, ln, n)
		return nil, true
	case "NonCanonical": // a different byte string that decodes to the same message (natively: the encoding twice, which protobuf merges)
		b := args[0].(BytesV)
		sym, ok := e.resolve(bytesE(b), keysOf(msgOf))
		if !ok {
			panic(pathEnd{"NonCanonical of bytes that are not a marshalled message"})
		}
		alt := e.freshSym("String", "noncanon")
		e.S.Send(fmt.Sprintf("(assert (and (str.prefixof \"\\u{1}M\" %s) (not (= %s %s)) (= (str.len %s) (* 2 (str.len %s)))))", alt, alt, sym, alt, sym))
		for other := range msgOf {
			e.S.Send(fmt.Sprintf("(assert (not (= %s %s)))", alt, other))
		}
		msgOf[alt] = msgOf[sym]
		return BytesV{E: alt}, true
	case "Sleep":
		e.pendingSleep = intE(args[0])
		return nil, true
	case "Now": // harness reads the clock
		return e.clock(), true
	case "TimeFromNow": // clock reading at harness start + symbolic offset (ns)
		e.bounds[args[0].(string)+": instant = base + offset, |offset| <= 4e18 ns"] = true
		off := e.input("Int", args[0].(string))
		e.S.Send(fmt.Sprintf("(assert (and (<= (- 4000000000000000000) %s) (<= %s 4000000000000000000)))", off, off))
		return TimeV{"(+ " + args[1].(TimeV).E + " " + off + ")"}, true
	case "Dur":
		e.bounds[fmt.Sprintf("%s: duration in [%s, %s] ns", args[0].(string), intE(args[1]), intE(args[2]))] = true
		d := e.input("Int", args[0].(string))
		e.S.Send(fmt.Sprintf("(assert (and (<= %s %s) (<= %s %s)))", intE(args[1]), d, d, intE(args[2])))
		return SymInt{d}, true
	case "ClockReading": // ghost: the i-th reading of the clock (0-based) taken so far
		i := args[0].(int64)
		if int(i) >= len(e.Clock) {
			panic(pathEnd{"no such clock reading"})
		}
		return TimeV{e.Clock[i]}, true
	case "TimeLE":
		ex := "(<= " + args[0].(TimeV).E + " " + args[1].(TimeV).E + ")"
		timeCmps[ex] = timeCmp{args[0].(TimeV).E, args[1].(TimeV).E, "le"}
		return SymBool{ex}, true
	case "TimeLT":
		ex := "(< " + args[0].(TimeV).E + " " + args[1].(TimeV).E + ")"
		timeCmps[ex] = timeCmp{args[0].(TimeV).E, args[1].(TimeV).E, "lt"}
		return SymBool{ex}, true
	case "TimeIs":
		i := args[1].(int64)
		if int(i) >= len(e.Clock) {
			panic(pathEnd{"no such clock reading"})
		}
		rhs := "(+ " + e.Clock[i] + " " + intE(args[2]) + ")"
		ex := "(= " + args[0].(TimeV).E + " " + rhs + ")"
		timeCmps[ex] = timeCmp{args[0].(TimeV).E, rhs, "eq"}
		return SymBool{ex}, true
	case "TimeEq":
		return SymBool{"(= " + args[0].(TimeV).E + " " + args[1].(TimeV).E + ")"}, true
	case "Iff":
		return SymBool{"(= " + boolE(args[0]) + " " + boolE(args[1]) + ")"}, true
	case "EqBytes":
		return SymBool{"(= " + bytesE(args[0]) + " " + bytesE(args[1]) + ")"}, true
	case "Not":
		return SymBool{"(not " + boolE(args[0]) + ")"}, true
	}
	return nil, false
}

// structKey renders a message value as a canonical string of its leaves (terms), following pointers.
func structKey(v any, seen map[*[]any]bool) string {
	switch x := v.(type) {
	case nil:
		return "nil"
	case StructV:
		parts := make([]string, len(x))
		for i, f := range x {
			parts[i] = structKey(f, seen)
		}
		return "{" + strings.Join(parts, ",") + "}"
	case Ptr:
		if seen[x.cells] {
			return "cycle"
		}
		seen[x.cells] = true
		defer delete(seen, x.cells)
		return "&" + structKey((*x.cells)[x.idx], seen)
	case SliceV:
		parts := make([]string, x.len)
		for i := 0; i < x.len; i++ {
			parts[i] = structKey((*x.arr)[x.off+i], seen)
		}
		return "[" + strings.Join(parts, ",") + "]"
	case BytesV:
		if x.Nil && x.Obj == nil {
			return "b\"\""
		}
		return "b" + bytesE(x)
	case IfaceV:
		if x.T == nil {
			return "nil"
		}
		return "i(" + x.T.String() + ")" + structKey(x.V, seen)
	case *MapV:
		if x == nil {
			return "map{}"
		}
		parts := make([]string, len(x.keys))
		for i := range x.keys {
			parts[i] = structKey(x.keys[i], seen) + ":" + structKey(x.vals[i], seen)
		}
		sort.Strings(parts)
		return "map{" + strings.Join(parts, ",") + "}"
	case TimeV:
		return "t" + x.E
	case SymInt:
		return x.E
	case SymBool:
		return x.E
	case SymStr:
		return "s" + x.E
	case SymReal:
		return x.E
	case string:
		return "s" + smtStr(x)
	case int64, bool:
		return fmt.Sprint(x)
	}
	return fmt.Sprintf("?%T%p", v, v)
}

// nonDefault builds the SMT condition "some field of this message value is non-default".
func nonDefault(v any) string {
	var parts []string
	var walk func(v any)
	walk = func(v any) {
		switch x := v.(type) {
		case StructV:
			for _, f := range x {
				walk(f)
			}
		case BytesV:
			if !x.Nil || x.Obj != nil {
				parts = append(parts, "(> (str.len "+bytesE(x)+") 0)")
			}
		case SymStr:
			parts = append(parts, "(> (str.len "+x.E+") 0)")
		case string:
			if x != "" {
				parts = append(parts, "true")
			}
		case SymInt:
			parts = append(parts, "(not (= "+x.E+" 0))")
		case int64:
			if x != 0 {
				parts = append(parts, "true")
			}
		case SymBool:
			parts = append(parts, x.E)
		case bool:
			if x {
				parts = append(parts, "true")
			}
		case Ptr:
			parts = append(parts, "true") // a present sub-message is encoded even if empty
		case SliceV:
			if x.len > 0 {
				parts = append(parts, "true")
			}
		case TimeV:
			parts = append(parts, "true")
		case *MapV:
			if x != nil && len(x.keys) > 0 {
				parts = append(parts, "true")
			}
		case IfaceV:
			if x.T != nil {
				parts = append(parts, "true")
			}
		}
	}
	walk(v)
	if len(parts) == 0 {
		return "false"
	}
	return "(or false " + strings.Join(parts, " ") + ")"
}

// marshalExactBytes: the exact protobuf encoding of a message whose set fields are all strings/bytes provably
// shorter than 128 bytes (and whose other fields are unset); ok=false when the message is not of that simple shape.
func (e *Engine) marshalExactBytes(sv StructV, st *types.Struct) (string, bool) {
	type fld struct {
		num  int
		term string // content term
		lit  bool
	}
	var fs []fld
	for i := 0; i < st.NumFields(); i++ {
		tag := reflectTag(st.Tag(i), "protobuf")
		if tag == "" {
			continue // state, sizeCache, unknownFields
		}
		parts := strings.Split(tag, ",")
		if len(parts) < 2 || parts[0] != "bytes" {
			// non-length-delimited kinds must be unset
			switch x := sv[i].(type) {
			case int64:
				if x != 0 {
					return "", false
				}
			case bool:
				if x {
					return "", false
				}
			case nil:
			default:
				return "", false
			}
			continue
		}
		num := 0
		fmt.Sscanf(parts[1], "%d", &num)
		switch x := sv[i].(type) {
		case string:
			if len(x) >= 128 {
				return "", false
			}
			if x != "" {
				fs = append(fs, fld{num, smtStr(x), true})
			}
		case SymStr:
			fs = append(fs, fld{num, x.E, false})
		case BytesV:
			if x.Nil && x.Obj == nil {
				continue
			}
			fs = append(fs, fld{num, bytesE(x), false})
		case nil:
		case SliceV:
			if x.len > 0 {
				return "", false
			}
		case *MapV:
			if x != nil && len(x.keys) > 0 {
				return "", false
			}
		default:
			return "", false
		}
	}
	sort.Slice(fs, func(i, j int) bool { return fs[i].num < fs[j].num })
	out := []string{"\"\""}
	for _, f := range fs {
		if !f.lit && e.S.CheckWith("(>= (str.len "+f.term+") 128)") != "unsat" {
			return "", false // a longer field needs a multi-byte length prefix: not encoded
		}
		key := uint32(f.num)<<3 | 2
		var tag string
		if key < 128 {
			tag = fmt.Sprintf("\"\\u{%x}\"", key)
		} else {
			tag = fmt.Sprintf("\"\\u{%x}\\u{%x}\"", key&0x7f|0x80, key>>7)
		}
		enc := fmt.Sprintf("(str.++ %s (str.from_code (str.len %s)) %s)", tag, f.term, f.term)
		if f.lit {
			out = append(out, enc)
		} else {
			out = append(out, fmt.Sprintf("(ite (> (str.len %s) 0) %s \"\")", f.term, enc))
		}
	}
	if len(out) == 1 {
		return "\"\"", true
	}
	return "(str.++ " + strings.Join(out, " ") + ")", true
}

func reflectTag(tag, key string) string {
	// minimal struct-tag lookup: key:"value"
	i := strings.Index(tag, key+":\"")
	if i < 0 {
		return ""
	}
	rest := tag[i+len(key)+2:]
	j := strings.IndexByte(rest, '"')
	if j < 0 {
		return ""
	}
	return rest[:j]
}

func marshalLowerBound(v any) string {
	var parts []string
	var walk func(v any)
	walk = func(v any) {
		switch x := v.(type) {
		case StructV:
			for _, f := range x {
				walk(f)
			}
		case BytesV:
			if !x.Nil || x.Obj != nil {
				l := "(str.len " + bytesE(x) + ")"
				parts = append(parts, "(ite (> "+l+" 0) (+ "+l+" 2) 0)")
			}
		case SymStr:
			l := "(str.len " + x.E + ")"
			parts = append(parts, "(ite (> "+l+" 0) (+ "+l+" 2) 0)")
		case string:
			if x != "" {
				parts = append(parts, fmt.Sprint(len(x)+2))
			}
		}
	}
	walk(v)
	if len(parts) == 0 {
		return ""
	}
	return "(+ 0 " + strings.Join(parts, " ") + ")"
}
