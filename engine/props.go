package main

// harnessSpec names one dual-mode harness function (in /verif/harness/<pkg>) and how to run it.
type harnessSpec struct {
	Pkg, Fn                      string
	Loop                         int // loop unwinding bound (every loop; exceeding it is reported, never ignored)
	LoopThorough                 int
	Validate                     int // feasible paths to validate natively in the quick tier (x4 in thorough)
	MustReach                    []string
	ThoroughOnly                 bool
	QuickOnly                    bool
	ShardBits, ShardBitsThorough int    // explore the path tree in 2^n processes (static split on the first n forks)
	Panics                       bool   // a reproduced panic in library code is a violation of this property (crash-freedom / "is refused with an error" clauses)
	CrossSolver                  string // thorough tier: re-run the whole harness on this solver and compare verdicts
	Env                          map[string]string
}

type propSpec struct {
	Harnesses   []harnessSpec
	Assumptions []string
	Explanation string
	Level       string // level_claimed.text
	Note        string // level_note
	DesignRef   string
}

var commonAssumptions = []string{
	"environment models of DESIGN.md section 3 (symbolic Dolev-Yao cryptography with unforgeable signatures, injective encoders and collision-free key IDs; injective-record protobuf model; integer clock with non-decreasing readings in 2017..2096; X.509 and TLS 1.3 handshake contract models) replace the standard library and third-party code; nodeenrollment's own code is executed from go/ssa",
	"integers are mathematical Ints with range side-conditions from the harness (lengths <= 2^16, instants and durations within +-2^61 ns); no wrap-around is modelled",
	"one schedule per path (sequentialised goroutines); no claim about interleavings",
	"bounds: every vf.Int/Bytes/String range listed under coverage.bounds; loops unrolled up to loop_bound with an unwinding check",
}

func with(extra ...string) []string {
	return append(append([]string{}, commonAssumptions...), extra...)
}

var props = map[string]propSpec{
	"C01": {Harnesses: []harnessSpec{
		{Pkg: "registration", Fn: "VerifC01NodeLed", Validate: 8, MustReach: []string{"issued", "not-issued"}, Panics: true, ShardBits: 2},
		{Pkg: "registration", Fn: "VerifC01Token", Validate: 8, MustReach: []string{"issued", "not-issued"}, Panics: true, ShardBits: 2},
		{Pkg: "registration", Fn: "VerifC01Wrapped", Validate: 8, MustReach: []string{"issued", "not-issued"}, Panics: true, ShardBits: 2},
		{Pkg: "registration", Fn: "VerifC01Rewrapped", Validate: 8, MustReach: []string{"issued", "not-issued"}, Panics: true, ShardBits: 2},
		{Pkg: "registration", Fn: "VerifC06TokenRace", Validate: 4, MustReach: []string{"end"}},
	}, Assumptions: with(), Explanation: "FetchNodeCredentials and everything under it from SSA, one harness per clause of the statement in inductive-step form: (a) arbitrary stored record vs arbitrary well-signed node-led request, (b) the server's own token with either half replaced, consumed or not, key enrolled or not, any maximum lifetime and clock, (c) registration info sealed by the server's wrapper / a foreign wrapper / garbage / a forged blob, and info re-sealed by a registered or unrelated node, each with matching or mismatching inner nonce and key, and with the requester free to fill the bundle fields an honest node leaves empty; a token used up or revoked between lookup and removal (one interleaving point, strict model storage and the real file back end) enrolls nobody; refusals leave the node records byte-identical"},
	"C02": {Harnesses: []harnessSpec{
		{Pkg: "protocol", Fn: "VerifC02Auth", Validate: 16, MustReach: []string{"authenticated", "rejected"}, Panics: true, ShardBits: 4},
		{Pkg: "protocol", Fn: "VerifC02Fetch", Validate: 8, MustReach: []string{"accept-returned"}, Panics: true},
		{Pkg: "protocol", Fn: "VerifC02FetchAndAuth", Validate: 4, MustReach: []string{"accept-returned"}, Panics: true},
	}, Assumptions: with("TLS handshake contract model (DESIGN 3.5); native twin: a real crypto/tls client over a loopback connection (vf.AdversaryConn)", "X.509 chain-building model of DESIGN 3.4 (depth 2, validity, EKU, DNS name)"), Explanation: "the real InterceptingListener.Accept (TLS callback, GenerateServerCertificates, ServerConfig and its callbacks, VerifyConnection) against a peer whose certificate issuer, key possession, request key, nonce signature key, node-ID hint, skip flag, common name and preferred root are all symbolic, with two records present or removed and both storage kinds; a fetch handshake with a foreign entry before, after or absent never yields a connection, nor does a hello that carries both a fetch request and an authentication request replayed from a registered node, in either order"},
	"C03": {Harnesses: []harnessSpec{
		{Pkg: "registration", Fn: "VerifC03Validate", Validate: 16, MustReach: []string{"accepted", "rejected"}, Panics: true, CrossSolver: "z3"},
		{Pkg: "registration", Fn: "VerifC03EntryPoints", Validate: 16, MustReach: []string{"authorize-accepted", "authorize-rejected", "fetch-done"}, Panics: true},
		{Pkg: "registration", Fn: "VerifC03NodeSide", Validate: 4, MustReach: []string{"own-request-accepted", "own-request-rejected"}},
	}, Assumptions: with(), Explanation: "validateFetchRequestCommon, AuthorizeNode and FetchNodeCredentials with every bundle field (the previous-key and ID fields included), the encoding sent (canonical or another encoding of the same message), the signature (any key over the sent / canonical / other bytes, or raw bytes of any length), both skews (any sign) and the clock symbolic; node-side request creation and its exact validity window"},
	"C04": {Harnesses: []harnessSpec{
		{Pkg: "protocol", Fn: "VerifC04OperatorFlow", Validate: 4, MustReach: []string{"end"}, ShardBits: 2},
		{Pkg: "protocol", Fn: "VerifC04TokenFlow", Validate: 4, MustReach: []string{"end"}, ShardBits: 2},
		{Pkg: "protocol", Fn: "VerifC04WrapperFlow", Validate: 4, MustReach: []string{"end"}, ShardBits: 2},
		{Pkg: "protocol", Fn: "VerifC04RewrappedFlow", Validate: 4, MustReach: []string{"end"}, ShardBits: 2},
		{Pkg: "protocol", Fn: "VerifC04NodeRefuses", Validate: 4, MustReach: []string{"accepted", "refused"}},
		{Pkg: "protocol", Fn: "VerifC04ShortRandom", Validate: 3, MustReach: []string{"authorized", "refused"}},
	}, Assumptions: with("clock assumption: the honest flow finishes within 1 s of symbolic time (vf.ShortScenario)", "the symbolic run uses the harness's marshal-based storage; file and store-once back ends are covered by C19"),
		Explanation: "the four honest enrollment flows from SSA (storage wrappers on/off on both sides, application state on/off, plain or store-once server back end, a repeated fetch in the wrapper flows, roots minted under any certificate lifetime between 2 h and 30 d) with every issued certificate inspected; node-side refusal of foreign, wrong-nonce or wrong-server-key responses and acceptance of the genuine response afterwards; full-entropy server key"},
	"C05": {Harnesses: []harnessSpec{
		{Pkg: "tls", Fn: "VerifC05KeyIdPath1", Validate: 8, MustReach: []string{"certificates-generated", "rejected"}, Panics: true, CrossSolver: "z3"},
		{Pkg: "tls", Fn: "VerifC05KeyIdPath2", ShardBits: 2, Validate: 8, MustReach: []string{"certificates-generated", "rejected"}, Panics: true},
		{Pkg: "tls", Fn: "VerifC05NodeIdPath0", Validate: 4, MustReach: []string{"rejected"}, Panics: true},
		{Pkg: "tls", Fn: "VerifC05NodeIdPath1", Validate: 8, MustReach: []string{"certificates-generated", "rejected"}, Panics: true},
		{Pkg: "tls", Fn: "VerifC05NodeIdPath2", ShardBits: 2, Validate: 8, MustReach: []string{"certificates-generated", "rejected"}, Panics: true},
		{Pkg: "tls", Fn: "VerifC05NodeIdPath3", ShardBits: 2, Validate: 8, MustReach: []string{"certificates-generated", "rejected"}, Panics: true, ThoroughOnly: true},
	}, Assumptions: with(), Explanation: "the whole of GenerateServerCertificates (verification and minting) over both lookup paths, 0..3 records in any order and grouping, nonce and client-state signatures chosen independently, arbitrary peer-supplied common name"},
	"C06": {Harnesses: []harnessSpec{
		{Pkg: "registration", Fn: "VerifC06SingleUse", Validate: 8, MustReach: []string{"first-use-enrolled", "first-use-refused"}},
		{Pkg: "registration", Fn: "VerifC06ExistingKey", Validate: 4, MustReach: []string{"enrolled", "refused"}},
		{Pkg: "registration", Fn: "VerifC06Tamper", Validate: 8, MustReach: []string{"enrolled", "refused"}},
		{Pkg: "registration", Fn: "VerifC06TokenRace", Validate: 4, MustReach: []string{"end"}},
	}, Assumptions: with(), Explanation: "real token creation, honest node side and FetchNodeCredentials: single use by the same or another node (first use with or without skip-storage), expiry for any maximum lifetime and clock, no enrollment over an existing record (with and without storage wrapper), a token used up or revoked between lookup and removal, and six tamperings of a stored token record against a second token with arbitrary creation instants; the HMAC key is never persisted"},
	"C07": {Harnesses: []harnessSpec{
		{Pkg: "protocol", Fn: "VerifC07RogueServer", Validate: 8, MustReach: []string{"connected", "refused"}, ShardBits: 2},
		{Pkg: "protocol", Fn: "VerifC07OwnServer", Validate: 8, MustReach: []string{"end"}},
		{Pkg: "protocol", Fn: "VerifC07Pending", Validate: 4, MustReach: []string{"pending", "end"}, ShardBits: 3},
		{Pkg: "protocol", Fn: "VerifC07Dial", Validate: 6, MustReach: []string{"only-rogue-peers", "own-server-answers"}, ShardBits: 2},
	}, Assumptions: with("client-side TLS handshake contract model (DESIGN 3.5): with InsecureSkipVerify the only guards are VerifyConnection and the server's proof of possession of its leaf key; native twin: a real crypto/tls server (vf.RogueServerConn)", "protocol.Dial runs whole; its outgoing connections are answered by scripted peers (engine: (*net.Dialer).DialContext hands out the peers registered with vf.DialScript; native: a loopback listener splices each accepted connection onto the peer), so name resolution, unix sockets and dial errors other than a refused connection are outside; the server side of a handshake with the node's own server is the listener's real TLS callback (engine) / a real Accept (native)"),
		Explanation: "real ClientConfigs (nonce, signing, ALPN assembly, chain filtering) and its VerifyConnection / GetClientCertificate callbacks against rogue servers (stale certificate for another nonce, foreign root, self-signed, another node's certificate; with or without the leaf key) for each configuration and dial option set; and against the node's own server when only one of its two roots survives; the pending-authorization path (not-authorized error, nothing stored, success with the same key after authorization) with both sides of the handshake running the library's code; the whole of protocol.Dial (credentials held, or fetched on the first connection of the same call) over scripted peers: own server, rogue peers only, a rogue peer or a refusing server first and the own server next; rogue servers also after the process built configurations for credentials of the rogue's root"},
	"C08": {Harnesses: []harnessSpec{
		{Pkg: "rotation", Fn: "VerifC08Rotate", Validate: 16, MustReach: []string{"nothing", "promote", "remint", "startover"}, CrossSolver: "z3"},
		{Pkg: "rotation", Fn: "VerifC08ReinitRemoveFails", Validate: 4, MustReach: []string{"end"}},
	}, Assumptions: with("clock assumption: one rotation call takes < 100 ms and ends before the promoted root expires"), Explanation: "one RotateRootCertificates call from absent or stored roots whose four validity instants are free integers (every ordering relative to now at once), any positive lifetime and skews, with or without reinitialisation: exact decision table, persisted = returned incl. labels, exact minted windows with the half-life shift, overlap, current valid; reinitialisation over a storage whose Remove fails never keeps an old root"},
	"C09": {Harnesses: []harnessSpec{
		{Pkg: "rotation", Fn: "VerifC09Base", Validate: 1, MustReach: []string{"end"}, CrossSolver: "z3"},
		{Pkg: "rotation", Fn: "VerifC09Step", Validate: 4, MustReach: []string{"returned", "promoted", "unchanged"}, CrossSolver: "z3"},
		{Pkg: "rotation", Fn: "VerifC09NodeLemma", Validate: 4, MustReach: []string{"end", "bound-is-tight-at-2R"}},
		{Pkg: "rotation", Fn: "VerifC09NodeLemma4", Validate: 2, MustReach: []string{"end", "bound-is-tight-at-2R"}, ThoroughOnly: true, ShardBits: 2},
	}, Assumptions: with("induction on the real step function: (1) empty storage establishes INV, (2) INV is preserved by one call made within the cadence bound and trust is never reset, (3) node lemma over up to three server calls from an arbitrary INV state", "INV (mine): current valid at the last call, next begins before current ends, both windows have length S-nb, next ends at least S after the last call", "clock: non-decreasing readings; everything that is not an explicit wait takes < 1 s; waits are symbolic (vf.Sleep) and witnesses that need hours of waiting are not replayed natively", "the strict bound t < te + R is asserted; equality is outside the claim"),
		Explanation: "histories of any length via base + inductive step on the real RotateRootCertificates; node lemma with a real AuthorizeNode enrollment (actual certificate windows) and the tightness twin at 2R"},
	"C10": {Harnesses: []harnessSpec{
		{Pkg: "rotation", Fn: "VerifC10Rotate", Validate: 2, MustReach: []string{"rotated", "refused"}, Panics: true},
		{Pkg: "rotation", Fn: "VerifC10Adversary", Validate: 16, MustReach: []string{"rotated", "refused"}, Panics: true, ShardBits: 4},
	}, Assumptions: with(), Explanation: "RotateNodeCredentials from an arbitrary stored state (two records of the node in either order, optional previous key, another node) and an arbitrary request (payload key, identification by key, by a known or by an unknown node ID, stateless old record, fresh or registered new key, inner nonce of any length, inner signature key, caller state option); plus an honest two-enrollment history with replay"},
	"C11": {Harnesses: []harnessSpec{
		{Pkg: ".", Fn: "VerifC11Arbitrary", Validate: 8, MustReach: []string{"returned"}, Panics: true},
		{Pkg: ".", Fn: "VerifC11RoundTrip", Validate: 8, MustReach: []string{"decrypted", "refused"}, Panics: true},
		{Pkg: ".", Fn: "VerifC11Mutated", Validate: 6, MustReach: []string{"opened", "refused"}, Panics: true},
		{Pkg: "types", Fn: "VerifC11KeyAgreement", Validate: 8, MustReach: []string{"opened", "refused"}, Panics: true},
	}, Assumptions: with("AEAD assumption: a ciphertext value different from the sealed one never opens (bit flips, truncation and extension are 'a different value'); AES-GCM itself is not encoded", "the aead wrapper of go-kms-wrapping (SetConfig, options, Encrypt, Decrypt incl. its unchecked [:12] split) is executed from its real SSA"),
		Explanation: "Encrypt/DecryptMessage with the aead dependency from SSA: arbitrary envelopes, binding to key and key ID (any ID, the empty one included) incl. previous keys, modified ciphertexts, node-side/server-side key agreement in both directions"},
	"C12": {Harnesses: []harnessSpec{
		{Pkg: "types", Fn: "VerifC12NodeInfo", Validate: 8, MustReach: []string{"loaded", "load-refused"}},
		{Pkg: "types", Fn: "VerifC12NodeCreds", Validate: 8, MustReach: []string{"loaded", "load-refused"}, ShardBits: 2},
		{Pkg: "types", Fn: "VerifC12Roots", Validate: 8, MustReach: []string{"loaded", "load-refused"}},
		{Pkg: "types", Fn: "VerifC12Token", Validate: 8, MustReach: []string{"loaded", "load-refused"}},
		{Pkg: "protocol", Fn: "VerifC12Flows", Validate: 4, MustReach: []string{"end"}},
	}, Assumptions: with("secrecy is a derivability check on provenance terms (a secret may reach storage only below an AEAD seal or a one-way function); natively replayed as bytes.Contains on the marshalled message", "the storage wrapper is a real go-kms-wrapping aead wrapper executed from SSA"),
		Explanation: "Store/Load of all four record types with a storage wrapper over a recording storage: secrecy of every private key / nonce / creation time, round trip (also of a value stored twice or loaded and stored again), refusal without or with another wrapper, transplanted sealed fields; and every record written by the library's own flows (root creation, operator and token enrollment, spare token, node rotation) under a server-side and a node-side wrapper opens with its side's wrapper only"},
	"C13": {Harnesses: []harnessSpec{
		{Pkg: "rotation", Fn: "VerifC13RotateFaults", Validate: 16, MustReach: []string{"fault-hit", "success", "error"}, CrossSolver: "z3"},
		{Pkg: "rotation", Fn: "VerifC13NodeRotationFaults", Loop: 16, Validate: 8, MustReach: []string{"fault-hit", "rotated", "failed"}},
		{Pkg: "registration", Fn: "VerifC13AuthorizeFaults", Validate: 8, MustReach: []string{"fault-hit", "authorized", "failed"}},
		{Pkg: "registration", Fn: "VerifC13NodeLedFetchFaults", Validate: 8, MustReach: []string{"fault-hit", "issued", "not-issued"}},
		{Pkg: "registration", Fn: "VerifC13WrappedFetchFaults", Validate: 8, MustReach: []string{"fault-hit", "issued", "not-issued"}},
		{Pkg: "registration", Fn: "VerifC13TokenCreateFaults", Validate: 4, MustReach: []string{"fault-hit", "created", "failed"}},
		{Pkg: "registration", Fn: "VerifC13TokenFetchFaults", Validate: 8, MustReach: []string{"fault-hit", "issued", "not-issued"}},
		{Pkg: "registration", Fn: "VerifC06TokenRace", Validate: 4, MustReach: []string{"end"}},
		{Pkg: "registration", Fn: "VerifC13DuplicateRecordFaults", Validate: 8, MustReach: []string{"fault-hit", "issued", "not-issued"}},
		{Pkg: "registration", Fn: "VerifC13NodeSideFaults", Validate: 8, MustReach: []string{"fault-hit", "created", "creation-failed", "handled", "handling-failed"}},
		{Pkg: "tls", Fn: "VerifC13GenerateFaults", Validate: 8, MustReach: []string{"fault-hit", "generated", "failed"}},
	}, Assumptions: with("single fault per call; a failing operation fails without applying (faults that lie and crashes mid-call are outside the claim)", "the failing operation's index and error kind (generic, ErrNotFound, context.Canceled) are symbolic; each harness asserts that the call makes no more storage operations than the index range covers (the unwinding check of the fault position)"),
		Explanation: "ten flows (root rotation with and without reinitialisation, node rotation, authorize, node-led fetch, wrapper fetch, token creation, token fetch, node-side create/handle, server-certificate generation) over a fault injector with symbolic failing-operation index and error kind; plus the token used up by a competing request between lookup and removal"},
	"C14": {Harnesses: []harnessSpec{
		{Pkg: "protocol", Fn: "VerifC14ArbitraryAlpn", Validate: 8, MustReach: []string{"end"}, Panics: true},
		{Pkg: "protocol", Fn: "VerifC14ArbitraryAlpn4", Validate: 8, MustReach: []string{"end"}, Panics: true, ThoroughOnly: true, ShardBits: 4},
		{Pkg: "protocol", Fn: "VerifC14ArbitraryAlpnReal", Validate: 8, MustReach: []string{"end"}, Panics: true},
		{Pkg: "protocol", Fn: "VerifC14Accept", Validate: 16, MustReach: []string{"peer-rejected", "peer-accepted", "end"}, Panics: true, ShardBits: 2},
		{Pkg: "protocol", Fn: "VerifC14AcceptThenHonest", Validate: 8, MustReach: []string{"peer-rejected", "honest-node-connected"}, Panics: true, ShardBits: 3},
	}, Assumptions: with("crypto/tls's own parsing of raw bytes is trusted not to panic", "TLS handshake contract model (DESIGN 3.5); a peer's fatal alert reaches the server as an error shaped like *net.OpError (Temporary() == false)", "ALPN names are 1..255 bytes (TLS cannot carry others)"),
		Explanation: "the TLS callback on 2-3 arbitrary ALPN strings (stubbed and real callees) and Accept (over storages with and without node-ID lookup) against arbitrary-ALPN, no-ALPN, non-TLS, aborting and resetting peers and a well-formed request naming an unknown node ID, followed by an honest node, a base-listener failure and closure"},
	"C15": {Harnesses: []harnessSpec{
		{Pkg: "protocol", Fn: "VerifC15WriteSetStubbed", Loop: 24, Validate: 8, MustReach: []string{"end"}},
		{Pkg: "protocol", Fn: "VerifC15WriteSet", Loop: 24, Validate: 8, MustReach: []string{"end"}, ShardBits: 4},
		{Pkg: "protocol", Fn: "VerifC15AfterRejected", Validate: 4, MustReach: []string{"end"}},
	}, Assumptions: with("REDUCED CLAIM: write-set isolation (a sufficient condition for handshakes not influencing each other through memory); interleavings themselves and data races are not decided by this technique", "writes made by Storage implementations are the environment's and exempt", "a reallocating append may return spare capacity (vf.AppendSpare): the Go runtime rounds capacities up"), Explanation: "one complete TLS callback with the real fetch and certificate-generation functions (and a stubbed variant for larger slices) writes nothing into memory that existed before it started, for every length and spare capacity of the application's option slice and of the listener's copy, for token, node-led, authentication and base handshakes, nor into a structured value held by one of those options; a plain client accepted after a rejected authenticated hello is reported with its own protocol list and no client state"},
	"C16": {Harnesses: []harnessSpec{
		{Pkg: "protocol", Fn: "VerifC16Protos", Validate: 8, MustReach: []string{"end"}},
		{Pkg: "protocol", Fn: "VerifC16ConnHonest", Validate: 8, MustReach: []string{"end"}, ShardBits: 2},
		{Pkg: "protocol", Fn: "VerifC16ConnForged", Validate: 8, MustReach: []string{"accepted", "rejected"}},
	}, Assumptions: with("TLS handshake contract model (DESIGN 3.5)", "client state is a one-field struct with an arbitrary string value (structpb reflection helpers are not encoded)"),
		Explanation: "trimmed protocol list on 3 arbitrary ALPN strings; end to end through the node's own ClientConfigs and the listener's Accept: reported list = offered list minus the preference entry (any position), returned as a copy; client state equal to what the node supplied and delivered only for a genuine signature by the key of the record that authenticated the request (also when the node is looked up by node ID and has a newer record)"},
	"C17": {Harnesses: []harnessSpec{
		{Pkg: "net", Fn: "VerifC17Routing", Validate: 16, MustReach: []string{"delivered-to-special", "delivered-to-auth", "delivered-to-unauth", "closed-no-listener", "end"}, Panics: true, ShardBits: 4},
		{Pkg: "net", Fn: "VerifC17LateRegistration", Validate: 4, MustReach: []string{"delivered-to-the-late-listener", "second-connection-has-no-listener", "end"}, Panics: true, ShardBits: 3},
	}, Assumptions: with("one schedule per path: goroutines are sequentialised coroutines with rendezvous channels (no claim about interleavings, see C18)", "the application's base TLS configuration offers no library-prefixed protocol names", "a mis-routed connection shows up as a deadlock of the harness (it accepts only from the designated sub-listener)"),
		Explanation: "real SplitListener.Start/GetListener and MultiplexingListener over the real InterceptingListener.Accept: every subset of {specific, non-specific, unauthenticated} sub-listeners, native-connection setting, an authenticated node or a plain TLS client offering an arbitrary extra protocol name (incl. the reserved ones), then base-listener closure; a sub-listener registered between two connections receives the second (first connection an authenticated node or a credential fetch, extra protocol listed before or after the request)"},
	"C19": {Harnesses: []harnessSpec{
		{Pkg: "storage/inmem", Fn: "VerifC19InmemStep", Validate: 16, MustReach: []string{"end"}},
		{Pkg: "storage/file", Fn: "VerifC19FileStep", Validate: 16, MustReach: []string{"end"}},
		{Pkg: "storage/testing", Fn: "VerifC19StoreOnceStep", Validate: 16, MustReach: []string{"end"}},
		{Pkg: "storage/inmem", Fn: "VerifC19InmemStep3", Loop: 12, Validate: 16, MustReach: []string{"end"}, ThoroughOnly: true, ShardBits: 4},
		{Pkg: "storage/file", Fn: "VerifC19FileStep3", Loop: 12, Validate: 16, MustReach: []string{"end"}, ThoroughOnly: true, ShardBits: 4},
		{Pkg: "storage/testing", Fn: "VerifC19StoreOnceStep3", Loop: 12, Validate: 16, MustReach: []string{"end"}, ThoroughOnly: true, ShardBits: 4},
	}, Assumptions: with("sequential histories only (the concurrent clause for the in-memory back end is not decided)", "ids are path-safe: non-empty, no '/', not '.' or '..' (true of every id the library generates)", "the radix tree and the file system are abstract maps (go-radix Insert/Get/Delete/DeletePrefix/ToMap; os WriteFile/ReadFile/Remove/Open+Readdirnames/OpenFile+Write); listing order is not decided",
		"inductive step: any history of operations leaves a state that is a finite typed map; the pre-state here holds two arbitrary entries"),
		Explanation: "inductive step of 'typed key-value map' for the in-memory, file and store-once back ends: arbitrary two-entry pre-state (types, ids, contents symbolic), one arbitrary operation on the real back-end code, compared with a reference map written in the harness"},
	"C20": {Harnesses: []harnessSpec{
		{Pkg: "tls", Fn: "VerifC20Whole", Loop: 12, Validate: 4, MustReach: []string{"end"}, Panics: true},
		{Pkg: "tls", Fn: "VerifC20InterleavedFetch", Loop: 12, Validate: 8, MustReach: []string{"end"}, Panics: true},
		{Pkg: "tls", Fn: "VerifC20InterleavedAuth", Loop: 12, Validate: 8, MustReach: []string{"end"}, Panics: true},
		{Pkg: "tls", Fn: "VerifC20Malformed", Validate: 4, MustReach: []string{"end"}, Panics: true},
		{Pkg: "tls", Fn: "VerifC20Lemma267", Validate: 0, Panics: true, CrossSolver: "z3"},
		{Pkg: "tls", Fn: "VerifC20Chunks13", Loop: 16, Validate: 2, MustReach: []string{"end"}, Panics: true},
		{Pkg: "tls", Fn: "VerifC20Chunks20", Loop: 24, Validate: 2, MustReach: []string{"end"}, Panics: true, ThoroughOnly: true},
	}, Assumptions: with("strings are byte sequences (code points 0..255); UTF-8 decoding ([]rune conversions, range over string) is not encoded", "the ClientHello limit is taken as 268 entries (65535 / minimal entry size); the per-chunk lemma covers chunk indices 0..267"),
		Explanation: "whole-function round trip for 1..4 and 12..13 chunks with symbolic content and length, the same with two unrelated names interleaved at arbitrary positions for both request prefixes, arbitrary malformed entries, and the per-chunk inductive lemma by loop cut up to the ClientHello limit"},
}
