package main

import (
	"bufio"
	"fmt"
	"io"
	"os"
	"os/exec"
	"strings"
	"time"
)

type Solver struct {
	cmd     *exec.Cmd
	in      io.WriteCloser
	out     *bufio.Reader
	Queries int
	Unknown int
	Time    time.Duration
	log     *strings.Builder
}

func solverName() string {
	switch s := os.Getenv("SOLVER"); s {
	case "z3", "z3-new":
		return s
	}
	return "cvc5"
}

func tlimitMs() string {
	if v := os.Getenv("GOSYM_TLIMIT_MS"); v != "" {
		return v
	}
	return "20000"
}

func NewSolver() *Solver {
	var cmd *exec.Cmd
	if sn := solverName(); sn != "cvc5" {
		cmd = exec.Command(sn, "-in", "-t:"+tlimitMs())
	} else {
		cmd = exec.Command("cvc5", "--incremental", "--strings-exp", "--produce-models", "--tlimit-per="+tlimitMs(), "--lang=smt2")
	}
	in, _ := cmd.StdinPipe()
	out, _ := cmd.StdoutPipe()
	cmd.Stderr = cmd.Stdout
	if err := cmd.Start(); err != nil {
		panic(err)
	}
	s := &Solver{cmd: cmd, in: in, out: bufio.NewReader(out), log: &strings.Builder{}}
	if solverName() != "cvc5" {
		s.Send("(set-option :produce-models true)")
	} else {
		s.Send("(set-logic ALL)")
	}
	return s
}

var logF *os.File

func (s *Solver) Send(cmd string) {
	if lf := os.Getenv("SMTLOG"); lf != "" {
		if logF == nil {
			logF, _ = os.Create(lf)
		}
		logF.WriteString(cmd + "\n")
	}
	s.log.WriteString(cmd + "\n")
	io.WriteString(s.in, cmd+"\n")
}

func (s *Solver) readLine() string {
	l, err := s.out.ReadString('\n')
	if err != nil {
		panic("solver died: " + err.Error() + "\n" + s.log.String()[max(0, s.log.Len()-2000):])
	}
	return strings.TrimSpace(l)
}

func (s *Solver) Check() string {
	t0 := time.Now()
	s.Send("(check-sat)")
	r := s.readLine()
	s.Queries++
	s.Time += time.Since(t0)
	if strings.HasPrefix(r, "(error") {
		panic("solver error: " + r + "\n" + s.log.String()[max(0, s.log.Len()-3000):])
	}
	if r != "sat" && r != "unsat" {
		s.Unknown++
		r = "unknown"
	}
	return r
}

// CheckWith checks sat of current assertions plus extra, without keeping extra.
func (s *Solver) CheckWith(extra string) string {
	s.Send("(push)")
	s.Send("(assert " + extra + ")")
	r := s.Check()
	s.Send("(pop)")
	return r
}

func (s *Solver) Eval(expr string) string {
	s.Send(fmt.Sprintf("(get-value (%s))", expr))
	// read balanced parens
	var sb strings.Builder
	depth := 0
	started := false
	for {
		l := s.readLine()
		sb.WriteString(l)
		for _, c := range l {
			if c == '(' {
				depth++
				started = true
			} else if c == ')' {
				depth--
			}
		}
		if started && depth <= 0 {
			break
		}
	}
	return sb.String()
}

func (s *Solver) Close() { s.Send("(exit)"); s.cmd.Wait() }
