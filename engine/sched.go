package main

import (
	"fmt"
	"go/token"
	"go/types"

	"golang.org/x/tools/go/ssa"
)

// ---- sequentialised goroutines: coroutines with rendezvous channels and a deterministic
// run-until-block scheduler (lowest runnable id first). One schedule, by design. ----

type G struct {
	id       int
	resume   chan struct{}
	runnable bool
	done     bool
	mail     any  // value delivered by a sender / select outcome
	mailOK   bool // recv ok flag
	selIdx   int
}

type waiter struct {
	g    *G
	val  any // for senders
	sel  *selWait
	idx  int
	dead bool
}
type selWait struct{ fired bool }

type ChanV struct {
	sendq, recvq []*waiter
	closed       bool
	elem         types.Type
}

type Sched struct {
	gs      []*G
	cur     *G
	abort   any // pathEnd (or other panic) raised in a non-main goroutine
	aborted bool
}

type NativeFn func(e *Engine, args []any) any

type CtxV struct {
	parent *CtxV
	done   bool
	ch     *ChanV
	kids   []*CtxV
}

func (c *CtxV) cancel(e *Engine) {
	if c.done {
		return
	}
	c.done = true
	e.closeChan(c.ch)
	for _, k := range c.kids {
		k.cancel(e)
	}
}

func (e *Engine) schedInit() {
	g0 := &G{id: 0, resume: make(chan struct{}, 1), runnable: true}
	e.sched = &Sched{gs: []*G{g0}, cur: g0}
}

// yield parks the current goroutine (unless still runnable) and runs the next runnable one.
func (e *Engine) yield() {
	s := e.sched
	me := s.cur
	var next *G
	for _, g := range s.gs {
		if g.runnable && !g.done && g != me {
			next = g
			break
		}
	}
	if next == nil {
		if me.runnable {
			return
		}
		e.panicObligation("PANIC deadlock: all goroutines are blocked")
	}
	s.cur = next
	next.resume <- struct{}{}
	<-me.resume
	s.cur = me
	if s.aborted && me.id == 0 {
		panic(s.abort)
	}
}

func (e *Engine) spawn(fn func()) {
	s := e.sched
	g := &G{id: len(s.gs), resume: make(chan struct{}, 1), runnable: true}
	s.gs = append(s.gs, g)
	go func() {
		<-g.resume
		defer func() {
			if r := recover(); r != nil && !s.aborted {
				s.aborted, s.abort = true, r
			}
			g.done, g.runnable = true, false
			// hand the baton on: to main if aborting, else to the next runnable goroutine
			var next *G
			if s.aborted {
				next = s.gs[0]
			} else {
				for _, x := range s.gs {
					if x.runnable && !x.done {
						next = x
						break
					}
				}
			}
			if next != nil {
				s.cur = next
				next.resume <- struct{}{}
			}
		}()
		s.cur = g
		fn()
	}()
}

// quiesce lets every other goroutine run until it blocks or finishes.
func (e *Engine) quiesce() {
	for {
		any := false
		for _, g := range e.sched.gs {
			if g != e.sched.cur && g.runnable && !g.done {
				any = true
			}
		}
		if !any {
			return
		}
		e.yield()
	}
}

func (e *Engine) park() {
	e.sched.cur.runnable = false
	e.yield()
}

func (e *Engine) wake(g *G) { g.runnable = true }

func live(q []*waiter) []*waiter {
	var out []*waiter
	for _, w := range q {
		if !w.dead && (w.sel == nil || !w.sel.fired) {
			out = append(out, w)
		}
	}
	return out
}

func (e *Engine) chanSend(ch *ChanV, v any) {
	if ch.closed {
		e.panicObligation("PANIC send on closed channel")
	}
	ch.recvq = live(ch.recvq)
	if len(ch.recvq) > 0 {
		w := ch.recvq[0]
		ch.recvq = ch.recvq[1:]
		if w.sel != nil {
			w.sel.fired = true
		}
		w.g.mail, w.g.mailOK, w.g.selIdx = v, true, w.idx
		e.wake(w.g)
		return
	}
	me := &waiter{g: e.sched.cur, val: v}
	ch.sendq = append(ch.sendq, me)
	e.park() // rendezvous: blocked until a receiver takes it (or the channel is closed: then Go panics)
	if ch.closed && !me.dead {
		e.panicObligation("PANIC send on closed channel")
	}
}

func (e *Engine) chanRecv(ch *ChanV) (any, bool) {
	ch.sendq = live(ch.sendq)
	if len(ch.sendq) > 0 {
		w := ch.sendq[0]
		ch.sendq = ch.sendq[1:]
		w.dead = true
		e.wake(w.g)
		return w.val, true
	}
	if ch.closed {
		return zero(ch.elem), false
	}
	ch.recvq = append(ch.recvq, &waiter{g: e.sched.cur})
	e.park()
	return e.sched.cur.mail, e.sched.cur.mailOK
}

func (e *Engine) closeChan(ch *ChanV) {
	if ch.closed {
		e.panicObligation("PANIC close of closed channel")
	}
	ch.closed = true
	for _, w := range live(ch.recvq) {
		if w.sel != nil {
			w.sel.fired = true
		}
		w.g.mail, w.g.mailOK, w.g.selIdx = zero(ch.elem), false, w.idx
		e.wake(w.g)
	}
	ch.recvq = nil
	for _, w := range live(ch.sendq) {
		e.wake(w.g) // they will panic on resume, as in Go
	}
}

// selectOp implements ssa.Select. Result tuple: (index, recvOk, recv values of the recv states in order).
func (e *Engine) selectOp(f *frame, x *ssa.Select) any {
	type st struct {
		ch   *ChanV
		send bool
		val  any
	}
	var states []st
	nrecv := 0
	for _, s := range x.States {
		c, _ := e.get(f, s.Chan).(*ChanV)
		if s.Dir == types.SendOnly {
			states = append(states, st{c, true, e.get(f, s.Send)})
		} else {
			states = append(states, st{c, false, nil})
			nrecv++
		}
	}
	result := func(idx int, ok bool, v any) any {
		t := Tuple{int64(idx), ok}
		for i, s := range states {
			if !s.send {
				if i == idx {
					t = append(t, v)
				} else {
					t = append(t, zero(x.States[i].Chan.Type().Underlying().(*types.Chan).Elem()))
				}
			}
		}
		return t
	}
	var ready []int
	for i, s := range states {
		if s.ch == nil {
			continue
		}
		if s.send {
			if len(live(s.ch.recvq)) > 0 {
				ready = append(ready, i)
			}
		} else if len(live(s.ch.sendq)) > 0 || s.ch.closed {
			ready = append(ready, i)
		}
	}
	if len(ready) > 0 {
		// Go picks pseudo-randomly among ready cases: fork over them
		pick := ready[len(ready)-1]
		for _, i := range ready[:len(ready)-1] {
			if e.branch(SymBool{e.freshSym("Bool", "selpick")}) {
				pick = i
				break
			}
		}
		s := states[pick]
		if s.send {
			e.chanSend(s.ch, s.val)
			return result(pick, false, nil)
		}
		v, ok := e.chanRecv(s.ch)
		return result(pick, ok, v)
	}
	if !x.Blocking {
		return result(-1, false, nil)
	}
	sw := &selWait{}
	for i, s := range states {
		if s.ch == nil {
			continue
		}
		w := &waiter{g: e.sched.cur, sel: sw, idx: i, val: s.val}
		if s.send {
			s.ch.sendq = append(s.ch.sendq, w)
		} else {
			s.ch.recvq = append(s.ch.recvq, w)
		}
	}
	e.park()
	g := e.sched.cur
	return result(g.selIdx, g.mailOK, g.mail)
}

type MutexV struct {
	readers int
	writer  bool
	wwait   int
	waiters []*G
}

func (m *MutexV) wakeAll(e *Engine) {
	for _, g := range m.waiters {
		e.wake(g)
	}
	m.waiters = nil
}

var mutexes = map[*any]*MutexV{}

func (e *Engine) mutex(v any) *MutexV {
	p := v.(Ptr)
	key := &(*p.cells)[p.idx]
	if mutexes[key] == nil {
		mutexes[key] = &MutexV{}
	}
	return mutexes[key]
}

var onceDone = map[*any]bool{}

func (e *Engine) stub8(fn *ssa.Function, args []any) (any, bool) {
	switch fn.String() {
	case "context.WithCancel":
		var parent *CtxV
		if p, ok := args[0].(IfaceV); ok {
			parent, _ = p.V.(*CtxV)
		}
		c := &CtxV{parent: parent, ch: &ChanV{elem: types.NewStruct(nil, nil)}}
		if parent != nil {
			parent.kids = append(parent.kids, c)
			if parent.done {
				c.cancel(e)
			}
		}
		cancel := NativeFn(func(e *Engine, _ []any) any { c.cancel(e); return nil })
		return Tuple{IfaceV{namedType("context", "Context"), c}, cancel}, true
	case "(*sync.RWMutex).Lock", "(*sync.Mutex).Lock":
		mu := e.mutex(args[0])
		mu.wwait++
		for mu.readers > 0 || mu.writer {
			mu.waiters = append(mu.waiters, e.sched.cur)
			e.park()
		}
		mu.wwait--
		mu.writer = true
		return nil, true
	case "(*sync.RWMutex).Unlock", "(*sync.Mutex).Unlock":
		mu := e.mutex(args[0])
		if !mu.writer {
			e.panicObligation("PANIC unlock of unlocked mutex")
		}
		mu.writer = false
		mu.wakeAll(e)
		return nil, true
	case "(*sync.RWMutex).RLock":
		mu := e.mutex(args[0])
		for mu.writer || mu.wwait > 0 { // Go: a waiting writer blocks new readers
			mu.waiters = append(mu.waiters, e.sched.cur)
			e.park()
		}
		mu.readers++
		return nil, true
	case "(*sync.RWMutex).RUnlock":
		mu := e.mutex(args[0])
		if mu.readers == 0 {
			e.panicObligation("PANIC RUnlock of unlocked RWMutex")
		}
		mu.readers--
		mu.wakeAll(e)
		return nil, true
	case "(*sync.Once).Do":
		p := args[0].(Ptr)
		key := &(*p.cells)[p.idx]
		if !onceDone[key] {
			onceDone[key] = true
			cl := args[1].(Closure)
			e.call(cl.fn, nil, cl.bind)
		}
		return nil, true
	case "github.com/armon/go-radix.New":
		return newObj(&MapV{}), true
	case "(*github.com/armon/go-radix.Tree).Insert":
		m := (*args[0].(Ptr).cells)[0].(*MapV)
		for j, mk := range m.keys {
			if e.branch(e.binop(token.EQL, mk, args[1], nil)) {
				old := m.vals[j]
				m.vals[j] = args[2]
				return Tuple{old, true}, true
			}
		}
		m.keys, m.vals = append(m.keys, args[1]), append(m.vals, args[2])
		return Tuple{IfaceV{}, false}, true
	case "(*github.com/armon/go-radix.Tree).Get":
		m := (*args[0].(Ptr).cells)[0].(*MapV)
		for j, mk := range m.keys {
			if e.branch(e.binop(token.EQL, mk, args[1], nil)) {
				return Tuple{m.vals[j], true}, true
			}
		}
		return Tuple{IfaceV{}, false}, true
	case "(*github.com/armon/go-radix.Tree).Delete":
		m := (*args[0].(Ptr).cells)[0].(*MapV)
		for j, mk := range m.keys {
			if e.branch(e.binop(token.EQL, mk, args[1], nil)) {
				old := m.vals[j]
				m.keys = append(append([]any{}, m.keys[:j]...), m.keys[j+1:]...)
				m.vals = append(append([]any{}, m.vals[:j]...), m.vals[j+1:]...)
				return Tuple{old, true}, true
			}
		}
		return Tuple{IfaceV{}, false}, true
	case "(*github.com/armon/go-radix.Tree).ToMap":
		m := (*args[0].(Ptr).cells)[0].(*MapV)
		return &MapV{keys: append([]any{}, m.keys...), vals: append([]any{}, m.vals...)}, true
	case "(*sync.Map).Load":
		m := e.syncMap(args[0])
		for i, k := range m.keys {
			if e.keyEq(k, args[1].(IfaceV).V) {
				return Tuple{m.vals[i], true}, true
			}
		}
		return Tuple{IfaceV{}, false}, true
	case "(*sync.Map).LoadOrStore":
		m := e.syncMap(args[0])
		for i, k := range m.keys {
			if e.keyEq(k, args[1].(IfaceV).V) {
				return Tuple{m.vals[i], true}, true
			}
		}
		m.keys, m.vals = append(m.keys, args[1].(IfaceV).V), append(m.vals, args[2])
		return Tuple{args[2], false}, true
	case "(*sync.Map).Range":
		m := e.syncMap(args[0])
		cl := args[1].(Closure)
		for i := range m.keys {
			kt := types.Typ[types.String]
			if !e.call(cl.fn, []any{IfaceV{kt, m.keys[i]}, m.vals[i]}, cl.bind).(bool) {
				break
			}
		}
		return nil, true
	}
	return nil, false
}

// keyEq: equality of two map keys; strings (possibly symbolic) are compared by the solver, everything else by identity.
func (e *Engine) keyEq(a, b any) bool {
	switch a.(type) {
	case string, SymStr:
		switch b.(type) {
		case string, SymStr:
			return e.branch(e.binop(token.EQL, a, b, nil))
		}
		return false
	}
	return a == b
}

var syncMaps = map[*any]*MapV{}

func (e *Engine) syncMap(v any) *MapV {
	p := v.(Ptr)
	key := &(*p.cells)[p.idx]
	if syncMaps[key] == nil {
		syncMaps[key] = &MapV{}
	}
	return syncMaps[key]
}

func (e *Engine) ctxMethod(c *CtxV, name string) any {
	switch name {
	case "Done":
		return c.ch
	case "Err":
		if c.done {
			return e.global(prog.ImportedPackage("context").Var("Canceled"))
		}
		return IfaceV{}
	}
	panic("ctx method " + name)
}

var _ = fmt.Sprint
var _ = token.ADD
