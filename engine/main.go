// gosym: bounded symbolic execution of Go SSA for the nodeenrollment checks.
//
//	gosym run   <pkgdir> <Harness> [flags]   execute one harness, print a JSON result
//	gosym check <ID> quick|thorough          decide a property (driver: see check.go)
//	gosym replay <ID> <model.json>           re-run a stored counterexample natively
package main

import (
	"fmt"
	"os"
)

const modPath = "github.com/hashicorp/nodeenrollment"

func usage() {
	fmt.Fprintln(os.Stderr, "usage: gosym run <pkgdir> <Harness> [-loop N] [-validate N] [-out file] | gosym check <ID> quick|thorough | gosym replay <ID> <model.json>")
	os.Exit(2)
}

func main() {
	if len(os.Args) < 2 {
		usage()
	}
	switch os.Args[1] {
	case "run":
		os.Exit(cmdRun(os.Args[2:]))
	case "check":
		os.Exit(cmdCheck(os.Args[2:]))
	case "manifest":
		os.Exit(cmdManifest())
	case "replay":
		os.Exit(cmdReplay(os.Args[2:]))
	default:
		usage()
	}
}
