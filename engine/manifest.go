package main

import (
	"encoding/json"
	"fmt"
	"os"
	"sort"
)

const technique = "bounded symbolic execution of the real go/ssa with SMT (cvc5; z3 cross-check): path feasibility, panic obligations and assertions decided by the solver; counterexamples replayed natively"

var notApplicable = []map[string]string{
	{"property_id": "C18", "reason": "quantifies only over goroutine schedules (unbuffered channel, RWMutex, Once, select, cancellation) with no symbolic data; from the real code this can only be explored by forking scheduler choices, i.e. enumerating concrete runs, which solver-based checking excludes (DESIGN.md section 6)"},
}

// cmdManifest writes MANIFEST.json from the property table (single source of truth).
func cmdManifest() int {
	var ids []string
	for id := range props {
		ids = append(ids, id)
	}
	sort.Strings(ids)
	var checks []map[string]any
	for _, id := range ids {
		p := props[id]
		level := p.Level
		if level == "" {
			level = "Bounded symbolic model checking of the real code: every feasible path of the harnessed functions within the stated bounds is explored and every assertion and panic obligation is decided by the SMT solver for all inputs on that path; " + p.Explanation + "."
		}
		note := p.Note
		if note == "" {
			note = "Trusted base: the environment models of DESIGN.md section 3 (cryptography, protobuf, time, X.509, crypto/tls contract), the SSA interpreter, cvc5/z3. Holds only within the bounds recorded in the evidence file. A path the engine cannot finish (content outside the string encoding, an engine error) is INCONCLUSIVE, never a pass; its solver-chosen inputs are replayed natively as a probe and only a natively failing probe is reported (DESIGN.md section 9.2)."
		}
		ref := p.DesignRef
		if ref == "" {
			ref = "DESIGN.md section 4 (" + id + ": design) and section 9.4 (harnesses as built)"
		}
		checks = append(checks, map[string]any{
			"property_id":         id,
			"quick_cmd":           "./check " + id + " quick",
			"thorough_cmd":        "./check " + id + " thorough",
			"evidence_file":       "/verif/evidence/" + id + ".json",
			"replay_cmd_template": "./check " + id + " --replay {path}",
			"engine":              "gosym",
			"level_claimed":       map[string]any{"category": "model_checking", "text": level, "design_ref": ref},
			"level_note":          note,
			"technique":           technique,
		})
	}
	m := map[string]any{
		"version":   1,
		"setup_cmd": "cd /verif/engine && GOFLAGS=-mod=mod GOPROXY=off GOSUMDB=off GOTOOLCHAIN=local go build -o bin/gosym .",
		"hooks": map[string]any{
			"guard":            "verif",
			"enable":           "go build tag `verif`: harness files (//go:build verif) are injected into the packages under test with go/packages Overlay (symbolic run) and `go test -tags verif -overlay` (native replay); /repo carries no hook commits",
			"baseline_off_cmd": "cd /repo && GOFLAGS=-mod=mod go test -json -vet=off -count=1 -timeout 25m ./...",
			"source_commits":   []string{},
			"add_only":         true,
		},
		"engines": []map[string]any{{
			"name": "gosym", "path": "/verif/engine", "serves_properties": ids,
			"kind_free_text": "SSA-level symbolic executor for Go written for this task (go/ssa front end, path-based exploration by re-execution, SMT-LIB2 to cvc5/z3, environment models, dual-mode harnesses with native replay)",
		}},
		"checks":         checks,
		"not_applicable": notApplicable,
		"notes":          "All checks: ./check <ID> quick|thorough. Genuine defects found and repaired are listed as fixed: lines in known_findings.txt; recorded findings as finding: lines.",
	}
	b, _ := json.MarshalIndent(m, "", " ")
	if err := os.WriteFile(verifDir+"/MANIFEST.json", append(b, '\n'), 0o644); err != nil {
		fmt.Fprintln(os.Stderr, err)
		return 1
	}
	return 0
}
