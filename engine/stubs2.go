package main

import (
	"fmt"
	"go/types"

	"golang.org/x/tools/go/ssa"
)

// freshFields fills the exported fields of a protobuf message struct with fresh symbolic values.
func (e *Engine) freshFields(p Ptr, st *types.Struct, hint string) {
	s := (*p.cells)[p.idx].(StructV)
	for i := 0; i < st.NumFields(); i++ {
		f := st.Field(i)
		if !f.Exported() {
			continue
		}
		switch u := f.Type().Underlying().(type) {
		case *types.Basic:
			switch {
			case u.Info()&types.IsBoolean != 0:
				s[i] = SymBool{e.freshSym("Bool", hint+"_"+f.Name())}
			case u.Info()&types.IsInteger != 0:
				s[i] = SymInt{e.freshSym("Int", hint+"_"+f.Name())}
			case u.Info()&types.IsString != 0:
				s[i] = SymStr{e.freshSym("String", hint+"_"+f.Name())}
			}
		case *types.Slice:
			if isByteSlice(f.Type()) {
				s[i] = BytesV{E: e.freshSym("String", hint+"_"+f.Name())}
			}
		}
	}
}

// isGarbage: the path condition forces the value to start with 0xFF (vf.Garbage): no decoder accepts it.
func (e *Engine) isGarbage(expr string) bool {
	return e.S.CheckWith("(not (str.prefixof \"\\u{ff}\" "+expr+"))") == "unsat"
}

func (e *Engine) stub3(fn *ssa.Function, args []any) (any, bool) {
	switch fn.String() {
	case "(*encoding/base64.Encoding).DecodeString":
		if sym, ok := e.resolve(strE(args[1]), keysOf(b64Of)); ok {
			return Tuple{BytesV{E: b64Of[sym]}, IfaceV{}}, true
		}
		if e.isGarbage(strE(args[1])) {
			return Tuple{BytesV{E: `""`, Nil: true}, e.mkErr("illegal base64 data")}, true
		}
		ok := SymBool{e.freshSym("Bool", "b64ok")}
		if e.branch(ok) {
			return Tuple{BytesV{E: e.freshSym("String", "b64dec")}, IfaceV{}}, true
		}
		return Tuple{BytesV{E: `""`, Nil: true}, e.mkErr("illegal base64 data")}, true
	case "(*encoding/base64.Encoding).EncodeToString":
		// injective uninterpreted encoder (congruence gives "same input, same text"); ground injectivity
		// instances against every earlier encoding; registry for decoding
		raw := bytesE(args[1])
		enc := "(b64enc " + raw + ")"
		if _, ok := b64Of[enc]; !ok {
			for other, oraw := range b64Of {
				e.S.Send(fmt.Sprintf("(assert (=> (= %s %s) (= %s %s)))", enc, other, raw, oraw))
			}
			// RawStdEncoding: len = ceil(4n/3); alphabet without '-' (chunk headers use '-')
			e.S.Send(fmt.Sprintf("(assert (and (= (str.len %s) (div (+ (* 4 (str.len %s)) 2) 3)) (not (str.contains %s \"-\"))))", enc, raw, enc))
			b64Of[enc] = raw
		}
		return SymStr{enc}, true
	case "crypto/subtle.ConstantTimeCompare":
		return SymInt{"(ite (= " + bytesE(args[0]) + " " + bytesE(args[1]) + ") 1 0)"}, true
	case "google.golang.org/protobuf/proto.Unmarshal":
		if e.isGarbage(bytesE(args[0])) {
			return e.mkErr("proto: cannot parse invalid wire-format data"), true
		}
		ok := SymBool{e.freshSym("Bool", "protook")}
		if !e.branch(ok) {
			return e.mkErr("proto: cannot parse invalid wire-format data"), true
		}
		dst := args[1].(IfaceV)
		p := dst.V.(Ptr)
		st := dst.T.(*types.Pointer).Elem().Underlying().(*types.Struct)
		(*p.cells)[p.idx] = zero(dst.T.(*types.Pointer).Elem())
		e.freshFields(p, st, "um")
		return IfaceV{}, true
	}
	return nil, false
}
