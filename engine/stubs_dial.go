package main

import (
	"net"

	"golang.org/x/tools/go/ssa"
)

// Outgoing connections (protocol.Dial): the harness registers, with vf.DialScript, the peers that answer the
// successive connections the code under test opens; (*net.Dialer).DialContext hands them out in order and reports
// "connection refused" once the script is exhausted. The address string is concrete.
var syncPools = map[*any][]any{}

const dialScriptAddr = "server.example:9202"

func (e *Engine) stubDial(fn *ssa.Function, args []any) (any, bool) {
	switch fn.String() {
	case "(*net.Dialer).DialContext":
		e.models["net.Dialer.DialContext: scripted peers (vf.DialScript)"] = true
		if cx, ok := args[1].(IfaceV); ok {
			if c, isCtx := cx.V.(*CtxV); isCtx && c.done {
				return Tuple{IfaceV{}, e.ctxMethod(c, "Err")}, true
			}
		}
		if e.dialNext >= len(e.dialScript) {
			return Tuple{IfaceV{}, e.mkErr("dial tcp: connect: connection refused")}, true
		}
		c := e.dialScript[e.dialNext]
		e.dialNext++
		return Tuple{c, IfaceV{}}, true
	case "(*sync.Pool).Get":
		// sequential model of sync.Pool: Get hands back the most recently Put value if there is one (the case that
		// matters: whatever a previous user left in it is seen again), otherwise New()
		e.models["sync.Pool: last-in first-out, never drops values"] = true
		p := args[0].(Ptr)
		key := &(*p.cells)[p.idx]
		if st := syncPools[key]; len(st) > 0 {
			v := st[len(st)-1]
			syncPools[key] = st[:len(st)-1]
			return v, true
		}
		pool := (*p.cells)[p.idx].(StructV)
		for i := 0; i < len(pool); i++ {
			if cl, ok := pool[i].(Closure); ok && cl.fn != nil {
				return e.call(cl.fn, nil, cl.bind), true
			}
		}
		return IfaceV{}, true
	case "(*sync.Pool).Put":
		p := args[0].(Ptr)
		key := &(*p.cells)[p.idx]
		syncPools[key] = append(syncPools[key], args[1])
		return nil, true
	case "net.SplitHostPort":
		s, ok := args[0].(string)
		if !ok {
			return nil, false
		}
		h, p, err := net.SplitHostPort(s)
		if err != nil {
			return Tuple{"", "", e.mkErr(err.Error())}, true
		}
		return Tuple{h, p, IfaceV{}}, true
	}
	return nil, false
}

func (e *Engine) intrinsicDial(name string, args []any) (any, bool) {
	if name != "DialScript" {
		return nil, false
	}
	va := args[0].(SliceV)
	e.dialScript, e.dialNext = nil, 0
	for i := 0; i < va.len; i++ {
		e.dialScript = append(e.dialScript, (*va.arr)[va.off+i])
	}
	return dialScriptAddr, true
}
