package main

import (
	"runtime/debug"
	"encoding/json"
	"flag"
	"fmt"
	"math/rand"
	"os"
	"os/exec"
	"path/filepath"
	"sort"
	"strconv"
	"strings"
	"time"

	"golang.org/x/tools/go/packages"
	"golang.org/x/tools/go/ssa"
	"golang.org/x/tools/go/ssa/ssautil"
)

// verifDir is the root of the verification tree (harnesses, evidence); repoDir the code under test.
var (
	verifDir = envOr("VERIF_DIR", "/verif")
	repoDir  = envOr("VERIF_REPO", "/repo")
)

func envOr(k, d string) string {
	if v := os.Getenv(k); v != "" {
		return v
	}
	return d
}

// harness package directories (relative to the repo root) -> harness source directory under verifDir/harness
var harnessPkgs = map[string]string{
	".": "root", "tls": "tls", "rotation": "rotation", "protocol": "protocol", "registration": "registration",
	"types": "types", "net": "net", "storage/inmem": "inmem", "storage/file": "file", "storage/testing": "storetesting",
}

// overlayFiles maps virtual repo paths to real harness files.
func overlayFiles() map[string]string {
	ov := map[string]string{}
	for _, d := range []string{"vf", "vfs"} { // the virtual harness-support packages
		files, _ := filepath.Glob(verifDir + "/harness/" + d + "/*.go")
		for _, f := range files {
			ov[filepath.Join(repoDir, "zzverif", d, filepath.Base(f))] = f
		}
	}
	for _, kv := range strings.Split(os.Getenv("VERIF_EXTRA_OVERLAY"), ",") {
		if a, b, ok := strings.Cut(kv, "="); ok {
			ov[a] = b
		}
	}
	for pkg, dir := range harnessPkgs {
		files, _ := filepath.Glob(verifDir + "/harness/" + dir + "/*.go")
		for _, f := range files {
			ov[filepath.Join(repoDir, pkg, "zz_verif_"+filepath.Base(f))] = f
		}
	}
	return ov
}

func decodeSmtString(v string) string {
	v = strings.TrimSpace(v)
	v = strings.TrimPrefix(v, "\"")
	v = strings.TrimSuffix(v, "\"")
	v = strings.ReplaceAll(v, "\"\"", "\"")
	var sb strings.Builder
	for i := 0; i < len(v); i++ {
		if strings.HasPrefix(v[i:], "\\u{") {
			j := strings.IndexByte(v[i:], '}')
			n, _ := strconv.ParseInt(v[i+3:i+j], 16, 32)
			sb.WriteByte(byte(n))
			i += j
			continue
		}
		sb.WriteByte(v[i])
	}
	return sb.String()
}

// modelJSON renders a solver model in the format the native vf runtime reads.
// discreteSig is the assignment of a counterexample's integer and boolean inputs.
func discreteSig(c Cex) string {
	var parts []string
	for k, v := range c.Model {
		if c.Sorts[k] == "Int" || c.Sorts[k] == "Bool" {
			parts = append(parts, k+"="+v)
		}
	}
	sort.Strings(parts)
	return strings.Join(parts, ",")
}

func modelJSON(c Cex) []byte {
	ints, bools, strs := map[string]int64{}, map[string]bool{}, map[string]string{}
	for k, raw := range c.Model {
		switch c.Sorts[k] {
		case "Int":
			r := strings.NewReplacer("(", "", ")", "", " ", "").Replace(raw)
			n, _ := strconv.ParseInt(r, 10, 64)
			ints[k] = n
		case "Bool":
			bools[k] = raw == "true"
		case "String":
			// JSON strings must be valid UTF-8: bytes travel hex-encoded
			strs[k] = fmt.Sprintf("%x", decodeSmtString(raw))
		}
	}
	b, _ := json.MarshalIndent(map[string]any{"ints": ints, "bools": bools, "hexstrings": strs, "what": c.What}, "", " ")
	return b
}

// ---- native replay: one compiled test binary per package, run once per model ----

type replayer struct {
	pkgDir string
	tmp    string
	bin    string
	err    string
}

func newReplayer(pkgDir string) *replayer {
	r := &replayer{pkgDir: pkgDir}
	tmp, err := os.MkdirTemp("", "gosym-replay")
	if err != nil {
		r.err = err.Error()
		return r
	}
	r.tmp = tmp
	ov := overlayFiles()
	tmpl, _ := os.ReadFile(verifDir + "/harness/replay_test.go.tmpl")
	pkgName := filepath.Base(pkgDir)
	switch pkgDir {
	case ".":
		pkgName = "nodeenrollment"
	case "storage/testing":
		pkgName = "testing"
	}
	testFile := filepath.Join(tmp, "replay_test.go")
	os.WriteFile(testFile, []byte(strings.Replace(string(tmpl), "package PKG", "package "+pkgName, 1)), 0o644)
	ov[filepath.Join(repoDir, pkgDir, "zz_verif_replay_test.go")] = testFile
	ovJSON, _ := json.Marshal(map[string]any{"Replace": ov})
	ovPath := filepath.Join(tmp, "overlay.json")
	os.WriteFile(ovPath, ovJSON, 0o644)
	r.bin = filepath.Join(tmp, "replay.test")
	cmd := exec.Command("go", "test", "-c", "-o", r.bin, "-tags", "verif", "-vet=off", "-overlay", ovPath, "./"+pkgDir)
	cmd.Dir = repoDir
	cmd.Env = append(os.Environ(), "GOFLAGS=-mod=mod", "GOPROXY=off", "GOSUMDB=off", "GOTOOLCHAIN=local")
	if b, err := cmd.CombinedOutput(); err != nil {
		r.err = "native build failed: " + string(b)
	}
	return r
}

func (r *replayer) close() {
	if r.tmp != "" {
		os.RemoveAll(r.tmp)
	}
}

type nativeRun struct {
	Out     string
	Failed  []string
	Reached []string
	Panic   string
}

func (r *replayer) run(harness string, model []byte) nativeRun {
	var nr nativeRun
	if r.err != "" {
		nr.Out = r.err
		return nr
	}
	mp := filepath.Join(r.tmp, "model.json")
	os.WriteFile(mp, model, 0o644)
	cmd := exec.Command(r.bin, "-test.run", "^TestVerifReplay$", "-test.v", "-test.timeout", "120s")
	cmd.Dir = filepath.Join(repoDir, r.pkgDir)
	cmd.Env = append(os.Environ(), "VERIF_MODEL="+mp, "VERIF_HARNESS="+harness)
	b, _ := cmd.CombinedOutput()
	nr.Out = string(b)
	for _, l := range strings.Split(nr.Out, "\n") {
		switch {
		case strings.HasPrefix(l, "VF-FAILED "):
			json.Unmarshal([]byte(strings.TrimPrefix(l, "VF-FAILED ")), &nr.Failed)
		case strings.HasPrefix(l, "VF-REACHED "):
			json.Unmarshal([]byte(strings.TrimPrefix(l, "VF-REACHED ")), &nr.Reached)
		case strings.HasPrefix(l, "VF-PANIC "):
			nr.Panic = strings.TrimPrefix(l, "VF-PANIC ")
		}
	}
	if nr.Panic == "" && strings.Contains(nr.Out, "panic: ") && !strings.Contains(nr.Out, "VF-REACHED") {
		// a panic in a goroutine other than the harness's kills the test binary outright
		i := strings.Index(nr.Out, "panic: ")
		nr.Panic = strings.SplitN(nr.Out[i:], "\n", 2)[0]
	}
	return nr
}

// reproduced: a crash obligation reproduces as a native panic in library code; an assertion only if
// the SAME label fails natively.
func reproduced(what string, nr nativeRun) bool {
	switch {
	case strings.HasPrefix(what, "PANIC"), strings.HasPrefix(what, "EXPLICIT PANIC"):
		return nr.Panic != "" && !strings.Contains(nr.Panic, "vf.Assume") && !strings.Contains(nr.Panic, "vf.Sleep")
	case strings.HasPrefix(what, "ASSERT "):
		for _, f := range nr.Failed {
			if f == strings.TrimPrefix(what, "ASSERT ") {
				return true
			}
		}
	case strings.HasPrefix(what, "PROBE "): // any native failure counts: the engine could not follow the code on this input
		return len(nr.Failed) > 0 || (nr.Panic != "" && !strings.Contains(nr.Panic, "vf.Assume") && !strings.Contains(nr.Panic, "vf.Sleep"))
	case strings.HasPrefix(what, "WRITE "):
		for _, f := range nr.Failed {
			if f == "no-shared-write" {
				return true
			}
		}
	}
	return false
}

// ---- result of one harness run ----

type CexOut struct {
	What       string            `json:"what"`
	Model      map[string]string `json:"model"`
	Slack      string            `json:"slack,omitempty"`
	Reproduced bool              `json:"reproduced"`
	Native     string            `json:"native,omitempty"`
	ModelFile  string            `json:"model_file,omitempty"`
	modelJSON  []byte
}

type HarnessResult struct {
	Pkg              string         `json:"pkg"`
	Harness          string         `json:"harness"`
	LoopBound        int            `json:"loop_bound"`
	Paths            int            `json:"paths"`
	Completed        int            `json:"completed"`
	Ends             map[string]int `json:"ends"`
	Queries          int            `json:"queries"`
	Unknown          int            `json:"unknown_queries"`
	SolverS          float64        `json:"solver_s"`
	LoadS            float64        `json:"load_s"`
	WallS            float64        `json:"wall_s"`
	Reach            map[string]int `json:"reach"`
	Asserts          map[string]int `json:"assertions_discharged"`
	Obligations      int            `json:"obligations"`
	Discharged       int            `json:"discharged"`
	Inconclusive     []string       `json:"inconclusive,omitempty"`
	UnwindFailures   int            `json:"unwinding_failures"`
	Cex              []CexOut       `json:"counterexamples,omitempty"`
	ValidationTried  int            `json:"validation_tried"`
	Validated        int            `json:"validated"`
	ValidationIssues []string       `json:"validation_issues,omitempty"`
	Functions        []string       `json:"functions_encoded"`
	Models           []string       `json:"env_models_used"`
	Havoc            []string       `json:"havoc_calls,omitempty"`
	Bounds           []string       `json:"bounds"`
	Samples          []string       `json:"samples,omitempty"`
	Error            string         `json:"error,omitempty"`
	Solver           string         `json:"solver"`
}

type validation struct {
	c     Cex
	reach []string
	desc  string
}

func cmdRun(argv []string) int {
	if len(argv) < 2 {
		usage()
	}
	pkgDir, harness := argv[0], argv[1]
	fs := flag.NewFlagSet("run", flag.ExitOnError)
	loop := fs.Int("loop", 8, "loop unwinding bound")
	nval := fs.Int("validate", 0, "validate up to N feasible paths natively")
	out := fs.String("out", "", "write the JSON result here (default stdout)")
	seed := fs.Int64("seed", 1, "sampling seed")
	maxPaths := fs.Int("maxpaths", 200000, "give up (inconclusive) after this many paths")
	fs.IntVar(&shardBits, "shardbits", 0, "split the path tree on its first N two-sided forks")
	fs.IntVar(&shardID, "shard", 0, "which of the 2^shardbits subtrees this process explores")
	fs.Parse(argv[2:])
	res := runHarness(pkgDir, harness, *loop, *nval, *seed, *maxPaths)
	b, _ := json.MarshalIndent(res, "", " ")
	if *out != "" {
		os.WriteFile(*out, b, 0o644)
	} else {
		fmt.Println(string(b))
	}
	if res.Error != "" {
		return 3
	}
	for _, c := range res.Cex {
		if c.Reproduced {
			return 1
		}
	}
	return 0
}

func loadProgram(pkgDir string) (*ssa.Package, error) {
	ovb := map[string][]byte{}
	for k, v := range overlayFiles() {
		b, err := os.ReadFile(v)
		if err != nil {
			return nil, err
		}
		ovb[k] = b
	}
	cfg := &packages.Config{Mode: packages.LoadAllSyntax, Dir: repoDir, BuildFlags: []string{"-tags=verif"}, Overlay: ovb,
		Env: append(os.Environ(), "GOFLAGS=-mod=mod", "GOPROXY=off", "GOSUMDB=off", "GOTOOLCHAIN=local")}
	pkgs, err := packages.Load(cfg, "./"+pkgDir)
	if err != nil {
		return nil, err
	}
	var errs []string
	packages.Visit(pkgs, nil, func(p *packages.Package) {
		for _, e := range p.Errors {
			errs = append(errs, e.Error())
		}
	})
	if len(errs) > 0 {
		return nil, fmt.Errorf("package load errors: %s", strings.Join(errs, "; "))
	}
	var spkgs []*ssa.Package
	prog, spkgs = ssautil.AllPackages(pkgs, ssa.InstantiateGenerics)
	for _, p := range prog.AllPackages() {
		if strings.HasPrefix(p.Pkg.Path(), modPath) {
			p.Build()
		}
	}
	initTLSTypes()
	return spkgs[0], nil
}

func runHarness(pkgDir, harness string, loopBound, nval int, seed int64, maxPaths int) (res HarnessResult) {
	res = HarnessResult{Pkg: pkgDir, Harness: harness, LoopBound: loopBound, Ends: map[string]int{}, Reach: map[string]int{}, Asserts: map[string]int{}, Solver: solverName()}
	t0 := time.Now()
	defer func() {
		if r := recover(); r != nil {
			res.Error = fmt.Sprint(r)
			if os.Getenv("GOSYM_STACK") != "" {
				res.Error += "\n" + string(debug.Stack())
			}
			if len(res.Error) > 4000 {
				res.Error = res.Error[:4000]
			}
		}
		res.WallS = time.Since(t0).Seconds()
	}()
	hp, err := loadProgram(pkgDir)
	if err != nil {
		res.Error = "load: " + err.Error()
		return
	}
	res.LoadS = time.Since(t0).Seconds()
	f := hp.Func(harness)
	if f == nil {
		res.Error = "no such harness " + harness
		return
	}
	e := &Engine{Reach: map[string]int{}, loopBound: loopBound, funcs: map[string]bool{}, models: map[string]bool{}, havoc: map[string]bool{}, bounds: map[string]bool{}, asserts: map[string]int{}}
	work := [][]decision{{}}
	var totalT time.Duration
	var validations []validation
	rng := rand.New(rand.NewSource(seed))
	nFeasible := 0
	for len(work) > 0 {
		if e.Paths >= maxPaths {
			res.Inconclusive = append(res.Inconclusive, fmt.Sprintf("path budget %d exhausted with %d prefixes pending", maxPaths, len(work)))
			break
		}
		prefix := work[len(work)-1]
		work = work[:len(work)-1]
		e.resetPath(prefix)
		func() {
			defer func() {
				if r := recover(); r != nil {
					if pe, ok := r.(pathEnd); ok {
						key := pe.reason
						if i := strings.Index(key, ";"); i > 0 {
							key = key[:i]
						}
						res.Ends[key]++
						if strings.HasPrefix(pe.reason, "UNWIND") {
							res.UnwindFailures++
						}
						return
					}
					// an engine error (an operation the interpreter cannot perform): this path is inconclusive, the others are
					// still explored. The path's inputs are kept as a probe: replayed natively, they count only if the native
					// run fails (see Engine.probe).
					msg := fmt.Sprint(r)
					if res.Error == "" {
						res.Error = msg
						if os.Getenv("GOSYM_STACK") != "" {
							res.Error += "\n" + string(debug.Stack())
						}
					}
					res.Ends["engine-error"]++
					func() {
						defer func() { _ = recover() }()
						e.probe("engine error on this path (" + firstLine(msg) + ")")
					}()
					return
				}
			}()
			allowedInit = map[string]bool{modPath: true, hp.Pkg.Path(): true}
			e.call(prog.ImportedPackage(modPath).Func("init"), nil, nil)
			if vfp := prog.ImportedPackage(modPath + "/zzverif/vf"); vfp != nil {
				_ = vfp
			}
			e.call(hp.Func("init"), nil, nil)
			reachBefore := len(e.ReachLog)
			e.call(f, nil, nil)
			if !e.ownsPath() {
				res.Ends["other-shard"]++
				return
			}
			res.Ends["completed"]++
			res.Completed++
			if nval > 0 && e.S.Check() == "sat" {
				nFeasible++
				// reservoir sampling of feasible completed paths
				slot := -1
				if len(validations) < nval {
					slot = len(validations)
					validations = append(validations, validation{})
				} else if j := rng.Intn(nFeasible); j < nval {
					slot = j
				}
				if slot >= 0 {
					if c, ok := e.robustPathModel(); ok {
						validations[slot] = validation{c, append([]string{}, e.ReachLog[reachBefore:]...), fmt.Sprint(e.decisions)}
					} else {
						validations = validations[:len(validations)-1]
						if slot < len(validations) {
							validations[slot] = validations[len(validations)-1]
						}
					}
				}
			}
			if len(res.Samples) < 4 {
				res.Samples = append(res.Samples, fmt.Sprintf("path %d: decisions=%d reach=%v errors=%v", e.Paths, len(e.decisions), e.ReachLog[reachBefore:], tail(e.trace, traceTail())))
			}
		}()
		e.Paths++
		work = append(work, e.pending...)
		res.Queries += e.S.Queries
		res.Unknown += e.S.Unknown
		totalT += e.S.Time
		e.S.Close()
	}
	res.Paths = e.Paths
	res.SolverS = totalT.Seconds()
	res.Reach = e.Reach
	res.Asserts = e.asserts
	res.Obligations, res.Discharged = e.nOblig, e.nDischarged
	res.Inconclusive = append(res.Inconclusive, e.inconclusive...)
	res.Functions, res.Models, res.Havoc, res.Bounds = keysSorted(e.funcs), keysSorted(e.models), keysSorted(e.havoc), keysSorted(e.bounds)

	// native side: validation of sampled paths, replay of counterexamples
	// one counterexample per violated obligation is reported; up to altMax further witnesses of the same obligation
	// (found on other paths) are kept as alternates and replayed if the first does not reproduce natively - a witness
	// that runs through an over-approximated decoder may not be realisable while one from a well-formed input is
	const altMax = 5
	seen := map[string]bool{}
	var cexs []Cex
	alts := map[string][]Cex{}
	for _, c := range e.Cex {
		if !seen[c.What] {
			seen[c.What] = true
			seen[c.What+"|"+discreteSig(c)] = true
			cexs = append(cexs, c)
		} else if sig := c.What + "|" + discreteSig(c); len(alts[c.What]) < altMax && !seen[sig] {
			// alternates are chosen to differ in their discrete inputs (scenario kinds, flags), not just in string contents
			seen[sig] = true
			alts[c.What] = append(alts[c.What], c)
		}
	}
	if len(validations) > 0 || len(cexs) > 0 {
		rp := newReplayer(pkgDir)
		defer rp.close()
		if rp.err != "" {
			res.Inconclusive = append(res.Inconclusive, "native twin could not be built, nothing was validated or replayed: "+firstLine(rp.err))
		}
		for _, v := range validations {
			nr := rp.run(harness, modelJSON(v.c))
			if strings.Contains(nr.Panic, "vf.Sleep: witness needs a longer wait") {
				continue // the path needs hours of waiting: not replayable natively, not a mismatch
			}
			res.ValidationTried++
			want, _ := json.Marshal(v.reach)
			got, _ := json.Marshal(nr.Reached)
			if v.reach == nil {
				want = []byte("[]")
			}
			if nr.Reached == nil {
				got = []byte("[]")
			}
			ok := string(want) == string(got)
			if ok {
				// natively failing assertions must be among the ones the engine found violable
				for _, fl := range nr.Failed {
					if !seen["ASSERT "+fl] {
						ok = false
					}
				}
				if nr.Panic != "" && !anyPrefix(seen, "PANIC") && !anyPrefix(seen, "EXPLICIT PANIC") {
					ok = false
				}
			}
			if ok {
				res.Validated++
			} else if len(res.ValidationIssues) < 8 {
				res.ValidationIssues = append(res.ValidationIssues, fmt.Sprintf("symbolic reach=%s native reach=%s failed=%v panic=%q model=%v", want, got, nr.Failed, nr.Panic, v.c.Model))
			}
		}
		for _, c := range cexs {
			mj := modelJSON(c)
			nr := rp.run(harness, mj)
			// native nondeterminism the model fixes one way (Go map iteration order, goroutine timing): a witness that
			// does not reproduce at once is replayed a few more times before it is called unconfirmed
			for try := 0; try < 4 && !reproduced(c.What, nr) && rp.err == ""; try++ {
				nr = rp.run(harness, mj)
			}
			for _, a := range alts[c.What] {
				if reproduced(c.What, nr) || rp.err != "" {
					break
				}
				if amj := modelJSON(a); string(amj) != string(mj) {
					if anr := rp.run(harness, amj); reproduced(a.What, anr) {
						c, mj, nr = a, amj, anr
					}
				}
			}
			co := CexOut{What: c.What, Model: c.Model, Slack: c.Slack, Reproduced: reproduced(c.What, nr), modelJSON: mj}
			var lines []string
			for _, l := range strings.Split(nr.Out, "\n") {
				if strings.HasPrefix(l, "VF-") || strings.HasPrefix(l, "panic:") {
					lines = append(lines, l)
				}
			}
			if len(lines) == 0 && rp.err != "" {
				lines = []string{rp.err}
			}
			co.Native = strings.Join(lines, " | ")
			if len(co.Native) > 1500 {
				co.Native = co.Native[:1500]
			}
			res.Cex = append(res.Cex, co)
		}
	}
	return
}

func anyPrefix(m map[string]bool, p string) bool {
	for k := range m {
		if strings.HasPrefix(k, p) {
			return true
		}
	}
	return false
}

func tail(s []string, n int) []string {
	if len(s) > n {
		return s[len(s)-n:]
	}
	return s
}

func keysSorted(m map[string]bool) []string {
	ks := make([]string, 0, len(m))
	for k := range m {
		ks = append(ks, k)
	}
	sort.Strings(ks)
	return ks
}

// traceTail: how many trailing error-trace entries a path sample shows (GOSYM_TRACETAIL, default 3).
func traceTail() int {
	if n, err := strconv.Atoi(os.Getenv("GOSYM_TRACETAIL")); err == nil && n > 0 {
		return n
	}
	return 3
}
