package main

import (
	"fmt"
	"go/token"
	"go/types"
	"path/filepath"
	"strings"

	"golang.org/x/tools/go/ssa"
)

// ---- an abstract file system for the file storage back end (C19): a map from path to content ----
// Paths are built by filepath.Join(dir, name) with a concrete dir and a (possibly symbolic) name that the
// harness assumes to be path-safe; the pair is remembered so that directories can be listed.

type fsEntry struct {
	dir, name, path any // dir concrete string; name/path string or SymStr
	content         string
}

type FileV struct {
	dir   string // opened as a directory
	entry *fsEntry
	off   string // write offset (Int term)
}
type FileInfoV struct{}

type joinPart struct{ dir, name any }

func (e *Engine) fsFind(path any) *fsEntry {
	for _, en := range e.fs {
		if e.branch(e.binop(token.EQL, en.path, path, nil)) {
			return en
		}
	}
	return nil
}

// builder: the accumulated content of a strings.Builder, keyed by the builder's address.
func (e *Engine) builder(v any) *string {
	p := v.(Ptr)
	key := &(*p.cells)[p.idx]
	if e.builders[key] == nil {
		z := `""`
		e.builders[key] = &z
	}
	return e.builders[key]
}

func (e *Engine) fsErr(msg string, notExist bool) any {
	if notExist {
		return e.mkErr(msg, e.global(prog.ImportedPackage("io/fs").Var("ErrNotExist")).deref())
	}
	return e.mkErr(msg)
}

func (p Ptr) deref() any { return (*p.cells)[p.idx] }

func (e *Engine) splitPath(path any) (dir, name any) {
	if jp, ok := e.joins[strE(path)]; ok {
		return jp.dir, jp.name
	}
	if s, ok := path.(string); ok {
		return filepath.Dir(s), filepath.Base(s)
	}
	panic("file model: path of unknown structure: " + strE(path))
}

func (e *Engine) stubOS(fn *ssa.Function, args []any) (any, bool) {
	switch fn.String() {
	case "path/filepath.Join":
		va := args[0].(SliceV)
		var acc any = ""
		for i := 0; i < va.len; i++ {
			el := (*va.arr)[va.off+i]
			if s, ok := el.(string); ok {
				if a, ok := acc.(string); ok {
					acc = filepath.Join(a, s)
					continue
				}
			}
			// symbolic element: assumed path-safe (non-empty, no separator, not . or ..): plain concatenation
			if a, ok := acc.(string); ok && a == "" {
				acc = el
				continue
			}
			joined := SymStr{"(str.++ " + strE(acc) + " \"/\" " + strE(el) + ")"}
			e.joins[joined.E] = joinPart{acc, el}
			acc = joined
		}
		return acc, true
	case "path/filepath.Base":
		if s, ok := args[0].(string); ok {
			return filepath.Base(s), true
		}
		_, name := e.splitPath(args[0])
		return name, true
	case "os.MkdirTemp":
		e.dirs["/tmp/vf-nodeenrollment-storage"] = true
		return Tuple{"/tmp/vf-nodeenrollment-storage", IfaceV{}}, true
	case "os.MkdirAll":
		if d, ok := args[0].(string); ok {
			for d != "/" && d != "." && d != "" { // the directory and all its parents exist from now on
				e.dirs[d] = true
				d = filepath.Dir(d)
			}
		}
		return IfaceV{}, true
	case "os.RemoveAll":
		return IfaceV{}, true
	case "os.WriteFile":
		if en := e.fsFind(args[0]); en != nil {
			en.content = bytesE(args[1])
			return IfaceV{}, true
		}
		dir, name := e.splitPath(args[0])
		e.fs = append(e.fs, &fsEntry{dir: dir, name: name, path: args[0], content: bytesE(args[1])})
		return IfaceV{}, true
	case "os.ReadFile":
		if en := e.fsFind(args[0]); en != nil {
			return Tuple{BytesV{E: en.content}, IfaceV{}}, true
		}
		return Tuple{BytesV{E: `""`, Nil: true}, e.fsErr("open: no such file or directory", true)}, true
	case "os.Remove":
		for i, en := range e.fs {
			if e.branch(e.binop(token.EQL, en.path, args[0], nil)) {
				e.fs = append(append([]*fsEntry{}, e.fs[:i]...), e.fs[i+1:]...)
				return IfaceV{}, true
			}
		}
		return e.fsErr("remove: no such file or directory", true), true
	case "os.Open":
		dir, ok := args[0].(string)
		if !ok {
			panic("file model: os.Open of a symbolic path")
		}
		if !e.dirs[dir] { // a directory nothing was ever stored in does not exist
			return Tuple{nil, e.fsErr("open "+dir+": no such file or directory", true)}, true
		}
		return Tuple{newObj(&FileV{dir: dir}), IfaceV{}}, true
	case "os.OpenFile":
		flags, _ := args[1].(int64)
		en := e.fsFind(args[0])
		if en == nil {
			if flags&0x40 == 0 { // O_CREATE
				return Tuple{nil, e.fsErr("open: no such file or directory", true)}, true
			}
			dir, name := e.splitPath(args[0])
			en = &fsEntry{dir: dir, name: name, path: args[0], content: `""`}
			e.fs = append(e.fs, en)
		}
		if flags&0x200 != 0 { // O_TRUNC
			en.content = `""`
		}
		off := "0"
		if flags&0x400 != 0 { // O_APPEND
			off = "(str.len " + en.content + ")"
		}
		return Tuple{newObj(&FileV{entry: en, off: off}), IfaceV{}}, true
	case "(*os.File).Write":
		f := (*args[0].(Ptr).cells)[0].(*FileV)
		data := bytesE(args[1])
		old, off := f.entry.content, f.off
		end := "(+ " + off + " (str.len " + data + "))"
		f.entry.content = fmt.Sprintf("(str.++ (str.substr %s 0 %s) %s (str.substr %s %s (- (str.len %s) %s)))", old, off, data, old, end, old, end)
		f.off = end
		return Tuple{SymInt{"(str.len " + data + ")"}, IfaceV{}}, true
	case "(*os.File).Sync", "(*os.File).Close", "(*os.File).Chmod":
		return IfaceV{}, true
	case "(*os.File).Readdirnames":
		f := (*args[0].(Ptr).cells)[0].(*FileV)
		var names []any
		for _, en := range e.fs {
			if d, ok := en.dir.(string); ok && d == f.dir {
				names = append(names, en.name)
			}
		}
		return Tuple{SliceV{&names, 0, len(names), len(names)}, IfaceV{}}, true
	case "os.Stat":
		if en := e.fsFind(args[0]); en != nil {
			return Tuple{IfaceV{namedType("io/fs", "FileInfo"), &FileInfoV{}}, IfaceV{}}, true
		}
		return Tuple{IfaceV{}, e.fsErr("stat: no such file or directory", true)}, true
	case "(io/fs.FileMode).IsRegular":
		return true, true
	case "os.IsNotExist":
		iv, ok := args[0].(IfaceV)
		if !ok || iv.T == nil {
			return false, true
		}
		return errIs(iv, e.global(prog.ImportedPackage("io/fs").Var("ErrNotExist")).deref()), true
	case "(*strings.Builder).WriteString", "(*strings.Builder).Write", "(*strings.Builder).WriteByte", "(*strings.Builder).WriteRune":
		b := e.builder(args[0])
		var add string
		switch v := args[1].(type) {
		case string, SymStr:
			add = strE(v)
		case BytesV:
			add = bytesE(v)
		case int64, SymInt:
			add = "(str.from_code " + intE(v) + ")"
		}
		*b = "(str.++ " + *b + " " + add + ")"
		if strings.HasSuffix(fn.String(), "WriteByte") {
			return IfaceV{}, true
		}
		return Tuple{SymInt{"(str.len " + add + ")"}, IfaceV{}}, true
	case "(*strings.Builder).String":
		return SymStr{*e.builder(args[0])}, true
	case "(*strings.Builder).Len":
		return SymInt{"(str.len " + *e.builder(args[0]) + ")"}, true
	case "(*strings.Builder).Reset":
		*e.builder(args[0]) = `""`
		return nil, true
	case "(*strings.Builder).Grow":
		return nil, true
	case "math/rand.NewSource":
		return IfaceV{namedType("math/rand", "Source"), OpaqueV{"randsource"}}, true
	case "math/rand.New":
		return newObj(OpaqueV{"rand"}), true
	case "(*math/rand.Rand).Intn", "math/rand.Intn":
		n := args[len(args)-1]
		sym := e.freshSym("Int", "rnd")
		e.S.Send(fmt.Sprintf("(assert (and (<= 0 %s) (< %s %s)))", sym, sym, intE(n)))
		return SymInt{sym}, true
	case "sort.Strings":
		return nil, true // order of symbolic names is not decided; harnesses compare listings as sets
	case "(*github.com/armon/go-radix.Tree).DeletePrefix":
		m := (*args[0].(Ptr).cells)[0].(*MapV)
		n := int64(0)
		var keys, vals []any
		for j, mk := range m.keys {
			if e.branch(SymBool{"(str.prefixof " + strE(args[1]) + " " + strE(mk) + ")"}) {
				n++
				continue
			}
			keys, vals = append(keys, mk), append(vals, m.vals[j])
		}
		m.keys, m.vals = keys, vals
		return n, true
	}
	return nil, false
}

var _ = types.Typ
var _ = strings.Join
